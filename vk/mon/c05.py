"""C05 — score-ballot elections enforce their limits and elect the top m totals."""
from fractions import Fraction as F

from .. import canon, cases, rules, rng, oracle, gen
from ..ref import scoring

META = {
    "level": "exploration",
    "rule": ("cases = (Rating|Limited|Cumulative|Approval|BlocPlurality configuration with limit L / budget k, score "
             "profile) where either all ballots respect the limits (some sitting exactly on them) or exactly one ballot, "
             "placed at any position of the tuple, violates exactly one limit by the smallest margin (1/10^6), is "
             "negative, or carries no scores. Oracle: acceptance predicate on the raw ballots; reference totals; top-m. "
             "distinct = hash(case); non-trivial = >=2 ballots with different weights and a limit case."),
    "assumptions": ["scores are compared after the Ballot's own rounding to denominators <= 10^6 (C11), i.e. the "
                    "acceptance predicate is evaluated on the stored scores"],
    "min_obs": {"all": {"accepted": 500, "rejected_typeerror": 300, "on_limit_accepted": 100, "boundary_tie_valueerror": 20,
                        "tiebreak_runs": 20}},
}

EPS = F(1, 10 ** 6)


def limits(cfg):
    r, m = cfg["rule"], cfg["m"]
    if r == "Rating":
        return canon.pf(cfg["L"]), None
    if r == "Limited":
        k = canon.pf(cfg["k"])
        return k, k
    if r == "Cumulative":
        return F(m), F(m)
    if r == "Approval":
        return F(1), None
    if r == "BlocPlurality":
        k = cfg.get("k")
        return F(1), F(k if k is not None else m)
    if r == "GeneralRating":
        k = cfg.get("k")
        return canon.pf(cfg.get("L", "1")), None if k is None else canon.pf(k)
    raise KeyError(r)


def mutate(rnd, case):
    """returns (case', kind) with exactly one ballot violating exactly one condition, or sitting on a limit"""
    cfg = case["cfg"]
    L, k = limits(cfg)
    spec = {"cands": list(case["profile"]["cands"]), "ballots": [dict(b) for b in case["profile"]["ballots"]]}
    cs = spec["cands"]
    kinds = ["over_L", "negative", "no_scores", "on_L"]
    if k is not None:
        kinds += ["over_k", "on_k"]
    kind = rnd.choice(kinds)
    c = rnd.choice(cs)
    w = canon.fs(gen.weight(rnd, "int"))
    if rnd.random() < 0.15:
        w = "0"  # the limits bind every ballot of the profile, also one that carries no weight
    if kind == "over_L":
        s = {c: L + (EPS if rnd.random() < 0.6 else rnd.choice([1, 10]))}
        if k is not None and L + EPS > k:
            kind = "over_L_and_k"
    elif kind == "negative":
        s = {c: -(EPS if rnd.random() < 0.6 else 1)}
        if len(cs) > 1 and rnd.random() < 0.5:
            s[[x for x in cs if x != c][0]] = min(L, F(1))
    elif kind == "no_scores":
        s = None if rnd.random() < 0.5 else {c: 0}
    elif kind == "on_L":
        s = {c: L}
    elif kind == "over_k":
        # split k+eps over candidates, each <= L
        s, left = {}, k + EPS
        for x in rnd.sample(cs, len(cs)):
            v = min(L, left)
            if v > 0:
                s[x] = v
                left -= v
        if left > 0:
            kind = "on_or_under_k"  # cannot exceed k with this many candidates
    else:  # on_k
        s, left = {}, k
        for x in rnd.sample(cs, len(cs)):
            v = min(L, left)
            if v > 0:
                s[x] = v
                left -= v
        if left > 0:
            kind = "on_or_under_k"
    nb = canon.spec_ballot(r=None, w=w, s=s)
    if kind == "no_scores" and s is None and rnd.random() < 0.5:
        nb = canon.spec_ballot(r=[[c]], w=w)  # a ranking but no scores
    pos = rnd.randint(0, len(spec["ballots"]))
    spec["ballots"].insert(pos, nb)
    c2 = {"cfg": cfg, "profile": spec, "tag": kind, "pos": pos}
    return c2, kind


def acceptable(cfg, ballots):
    """acceptance predicate on the raw (stored) ballots"""
    L, k = limits(cfg)
    for r, w, s in ballots:
        s = {c: F(v).limit_denominator() for c, v in (s or {}).items()}
        s = {c: v for c, v in s.items() if v != 0}
        if not s:
            return False, "no scores"
        if any(v < 0 for v in s.values()):
            return False, "negative"
        if any(v > L for v in s.values()):
            return False, "over L"
        if k is not None and sum(s.values(), F(0)) > k:
            return False, "over k"
    return True, "ok"


def check_case(ctx, case, max_runs):
    cfg, spec = case["cfg"], case["profile"]
    cands, ballots = canon.plain(spec)
    prof = canon.build_profile(spec)
    ok, why = acceptable(cfg, ballots)
    m = cfg["m"]
    script0 = case.get("script")
    if script0 is not None:
        r = rng.Rng("script", script=script0)
        with r:
            out = rules.run(cfg, prof)[0]
        runs = [(script0, out, r)]
    else:
        runs = rng.explore(lambda: rules.run(cfg, prof)[0], max_runs=max_runs, raw=True)
    for script, out, r in runs:
        c2 = dict(case)
        c2["script"] = script
        ws = {w for _, w, _ in ballots}
        ctx.case({"cfg": cfg, "profile": spec, "script": script},
                 nontrivial=len(ballots) >= 2 and len(ws) >= 2 and case.get("tag", "") != "score")
        if not ok:
            if out.ok:
                ctx.fail(f"{cfg['rule']}: profile violating a limit ({why}) was accepted", c2,
                         {"tag": case.get("tag"), "outcome": canon.outcome_c(out.value)})
            elif out.etype != "TypeError":
                ctx.fail(f"{cfg['rule']}: invalid profile ({why}) rejected with {out.etype}, not TypeError", c2,
                         {"msg": str(out.exc)[:200]})
            else:
                ctx.count("rejected_typeerror")
                ctx.count("rejected_" + why.replace(" ", "_"))
            continue
        sc = scoring.rating_totals(cands, [(r_, w, {c: F(v).limit_denominator() for c, v in (s or {}).items()})
                                            for r_, w, s in ballots])
        tie = scoring.boundary_tie(sc, m)
        if not out.ok:
            if out.etype == "ValueError" and tie is not None and cfg.get("tiebreak") is None:
                ctx.count("boundary_tie_valueerror")
                continue
            ctx.fail(f"{cfg['rule']}: valid profile rejected with {out.etype}", c2,
                     {"msg": str(out.exc)[:200], "tag": case.get("tag")},
                     mech=oracle.classify(cfg, cands, ballots, out.etype) if "has no scores" in str(out.exc) else None)
            continue
        ctx.count("accepted")
        if case.get("tag") in ("on_L", "on_k"):
            ctx.count("on_limit_accepted")
        e = out.value
        if tie is not None and cfg.get("tiebreak") is None:
            ctx.fail(f"{cfg['rule']}: boundary tie without tiebreak returned a result", c2, {"tie": sorted(tie)})
            continue
        if dict(e.election_states[0].scores) != sc:
            ctx.fail(f"{cfg['rule']}: totals differ from sum of weight*score", c2,
                     {"got": canon.scores_c(e.election_states[0].scores), "exp": canon.scores_c(sc)})
            continue
        winners = [c for g in e.get_elected() for c in g]
        if not scoring.topm_ok(sc, winners, m):
            ctx.fail(f"{cfg['rule']}: winners are not the m highest totals", c2, {"winners": winners, "scores": canon.scores_c(sc)})
            continue
        if e.election_states[-1].tiebreaks:
            ctx.count("tiebreak_runs")


def check_sequence(ctx, case):
    """state leaks: the SAME profile object is given to two score-ballot rules in turn; each construction is judged by the
    acceptance predicate of its own rule, and the profile object must come out unchanged"""
    spec = case["profile"]
    cands, ballots = canon.plain(spec)
    prof = canon.build_profile(spec)
    keys0 = sorted(prof.__dict__.keys())
    snap0 = canon.jhash(canon.profile_c(prof))
    ctx.case(case, nontrivial=True)
    for i, cfg in enumerate(case["cfgs"]):
        ok, why = acceptable(cfg, ballots)
        out = rules.run(cfg, prof)[0]
        ctx.count("sequence_constructions")
        if sorted(prof.__dict__.keys()) != keys0 or canon.jhash(canon.profile_c(prof)) != snap0:
            ctx.fail(f"{cfg['rule']}: running the election changed the profile object it was given", case,
                     {"step": i + 1, "new_attributes": sorted(set(prof.__dict__) - set(keys0))})
            return
        if not ok and out.ok:
            ctx.fail(f"{cfg['rule']}: profile violating a limit ({why}) was accepted when the same profile object had been used by "
                     f"another election before", case, {"step": i + 1, "earlier": [c["rule"] for c in case["cfgs"][:i]]})
            return
        if not ok and out.etype != "TypeError":
            ctx.fail(f"{cfg['rule']}: invalid profile ({why}) rejected with {out.etype}, not TypeError (profile object reused)", case,
                     {"step": i + 1})
            return
        if ok and not out.ok and out.etype != "ValueError":
            ctx.fail(f"{cfg['rule']}: valid profile rejected with {out.etype} after the profile object was used by another election",
                     case, {"step": i + 1, "msg": str(out.exc)[:200]})
            return


def run(ctx):
    rnd = ctx.rnd
    for i in range(ctx.n(1500, 30000)):
        if ctx.expired(0.3):
            break
        n = rnd.randint(2, 5)
        m = rnd.randint(1, n)
        base = gen.score_profile(rnd, n=n, L=rnd.choice([1, 2, 3]))
        cfgs = []
        for _ in range(rnd.randint(2, 3)):
            r = rnd.choice(["Approval", "Rating", "BlocPlurality", "Limited", "Cumulative", "GeneralRating"])
            cfg = {"rule": r, "m": m, "tiebreak": "random"}
            if r == "Rating":
                cfg["L"] = canon.fs(F(rnd.choice([1, 2, 3])))
            if r == "Limited":
                cfg["k"] = canon.fs(F(rnd.randint(1, m)))
            if r == "BlocPlurality" and rnd.random() < 0.5:
                cfg["k"] = rnd.randint(1, n)
            if r == "GeneralRating":
                L = rnd.choice([1, 2, 3])
                cfg["L"] = canon.fs(F(L))
                cfg["k"] = rnd.choice([None, canon.fs(F(rnd.randint(L, L + 3)))])
            cfgs.append(cfg)
        ctx.guard("sequence", check_sequence, ctx, {"kind": "sequence", "profile": base, "cfgs": cfgs})
    for i in range(ctx.n(9000, 200000)):
        if ctx.expired():
            break
        rule = rules.SCORE_RULES[i % 5]
        base = cases.score_case(ctx.rnd, rule)
        if i % 3 == 0:
            ctx.guard("check", check_case, ctx, base, 2)
        else:
            c2, kind = mutate(ctx.rnd, base)
            ctx.count("mut_" + kind)
            ctx.guard("check", check_case, ctx, c2, 2)


def replay(ctx, case):
    if case.get("kind") == "sequence":
        return check_sequence(ctx, case)
    check_case(ctx, case, 1)
