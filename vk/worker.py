"""One shard of one check: python -m vk.worker PID tier seed shard nshards out.json [replay.json]"""
import importlib
import json
import os
import sys
import traceback

from . import env, core


def main(argv):
    pid, tier, seed, shard, nshards, out = argv[0], argv[1], int(argv[2]), int(argv[3]), int(argv[4]), argv[5]
    replay = argv[6] if len(argv) > 6 else None
    res = {"pid": pid, "shard": shard, "fatal": None}
    try:
        env.bootstrap()
    except BaseException:
        res["fatal"] = "bootstrap: " + traceback.format_exc()
        json.dump(res, open(out, "w"))
        return 3
    import random
    import numpy as np

    random.seed(seed * 1000 + shard)
    np.random.seed((seed * 1000 + shard) % (2 ** 32))
    mod = importlib.import_module(f"vk.mon.{pid.lower()}")
    deadline = float(os.environ.get("VK_SOFT_DEADLINE", mod.META.get("soft_deadline", {}).get(tier, 150 if tier == "quick" else 3000)))
    hs = os.environ.get("PYTHONHASHSEED")
    ctx = core.Ctx(pid, tier, seed, shard, nshards, deadline_s=deadline, hashseed=hs)
    try:
        if replay:
            rec = json.load(open(replay))
            if isinstance(rec["case"], dict) and rec["case"].get("prelude"):
                # a violation that needs an earlier request in the same process (state leaks): that request is replayed first
                mod.replay(ctx, rec["case"]["prelude"])
            mod.replay(ctx, rec["case"])
        else:
            mod.run(ctx)
    except BaseException:
        ctx.harness_error("worker top level")
    try:
        from . import gen as _gen
        for k, v in _gen.SLICES.items():
            ctx.count(k, v)
    except Exception:  # noqa
        pass
    res.update(ctx.result())
    with open(out, "w") as f:
        json.dump(res, f)
    return 0


if __name__ == "__main__":
    sys.exit(main(sys.argv[1:]))
