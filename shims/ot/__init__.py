def emd(*a, **k):
    raise RuntimeError("ot stub")
