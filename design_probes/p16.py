import sys, io, contextlib
sys.path[:0] = ['/repo/src', __import__('os').path.join(__import__('os').path.dirname(__import__('os').path.abspath(__file__)) if '__file__' in globals() else '.', 'shim')]
from fractions import Fraction as F
from votekit import Ballot, PreferenceProfile
from votekit.elections import *
from votekit.utils import validate_score_vector
import votekit.ballot_generator as bg
from votekit.pref_interval import PreferenceInterval as PI, combine_preference_intervals as comb
fs = lambda *xs: tuple(frozenset(x if isinstance(x,(set,list,tuple)) else [x]) for x in xs)
rp = PreferenceProfile(ballots=(Ballot(ranking=fs('A','B','C'),weight=3),Ballot(ranking=fs('B','C'),weight=2),Ballot(ranking=fs('C','A'),weight=1)))
sp = PreferenceProfile(ballots=(Ballot(scores={'A':1,'B':1},weight=3),Ballot(scores={'C':1},weight=2),Ballot(scores={'B':1},weight=1)))
def t(label,f):
    try:
        with contextlib.redirect_stdout(io.StringIO()):
            r=f()
        print(f'{label:45s} ACCEPTED', getattr(r,'get_elected',lambda:None)())
    except BaseException as e:
        print(f'{label:45s} {type(e).__name__}: {str(e)[:60]}')
for name,mk in [('STV',lambda m: STV(rp,m=m)),('SeqRCV',lambda m: SequentialRCV(rp,m=m)),('Plurality',lambda m: Plurality(rp,m=m)),('SNTV',lambda m: SNTV(rp,m=m)),('Borda',lambda m: Borda(rp,m=m)),('Condo',lambda m: CondoBorda(rp,m=m)),('RD',lambda m: RandomDictator(rp,m=m)),('BRD',lambda m: BoostedRandomDictator(rp,m=m)),('PV',lambda m: PluralityVeto(rp,m=m)),('Alaska m2',lambda m: Alaska(rp,m_1=3,m_2=m)),('Alaska m1',lambda m: Alaska(rp,m_1=m,m_2=1)),('Rating',lambda m: Rating(sp,m=m)),('Approval',lambda m: Approval(sp,m=m)),('Limited',lambda m: Limited(sp,m=m,k=1)),('Cumulative',lambda m: Cumulative(sp,m=m)),('Bloc',lambda m: BlocPlurality(sp,m=m)),('GenRating',lambda m: GeneralRating(sp,m=m))]:
    for m in (0,3,4,-1):
        t(f'{name} m={m}', lambda: mk(m))
t('STV quota typo', lambda: STV(rp,m=1,quota='drop'))
t('Alaska m1<m2', lambda: Alaska(rp,m_1=1,m_2=2))
t('STV tied ballot', lambda: STV(PreferenceProfile(ballots=(Ballot(ranking=fs('A'),weight=1),Ballot(ranking=fs({'A','B'}),weight=1))),m=1))
t('STV no ranking last', lambda: STV(PreferenceProfile(ballots=(Ballot(ranking=fs('A'),weight=1),Ballot(scores={'A':1},weight=1))),m=1))
t('Plurality no ranking last', lambda: Plurality(PreferenceProfile(ballots=(Ballot(ranking=fs('A'),weight=1),Ballot(scores={'A':1},weight=1))),m=1))
t('PV noninteger', lambda: PluralityVeto(PreferenceProfile(ballots=(Ballot(ranking=fs('A','B'),weight=1),Ballot(ranking=fs('B','A'),weight=F(3,2)))),m=1))
t('Borda negative vec', lambda: Borda(rp,score_vector=[2,1,-1]))
t('Borda increasing vec', lambda: Borda(rp,score_vector=[1,2,0]))
t('Borda zero vec', lambda: Borda(rp,score_vector=[0,0,0]))
t('Rating L=0', lambda: Rating(sp,L=0)); t('GenRating k=0', lambda: GeneralRating(sp,k=0)); t('GenRating k=-1', lambda: GeneralRating(sp,k=-1)); t('GenRating L>k', lambda: GeneralRating(sp,L=2,k=1)); t('GenRating L=k', lambda: GeneralRating(sp,L=2,k=2))
t('Limited k>m', lambda: Limited(sp,m=1,k=2)); t('Bloc k=0', lambda: BlocPlurality(sp,m=1,k=0)); t('Bloc k=-1', lambda: BlocPlurality(sp,m=1,k=-1))
t('Rating missing scores last', lambda: Rating(PreferenceProfile(ballots=(Ballot(scores={'A':1}),Ballot(ranking=fs('A')))),m=1))
t('Rating over L last', lambda: Rating(PreferenceProfile(ballots=(Ballot(scores={'A':1}),Ballot(scores={'B':F(1000001,1000000)}))),m=1))
t('Rating at L', lambda: Rating(PreferenceProfile(ballots=(Ballot(scores={'A':1}),Ballot(scores={'B':1}))),m=1,tiebreak='random'))
t('Rating negative', lambda: Rating(PreferenceProfile(ballots=(Ballot(scores={'A':1}),Ballot(scores={'B':-1}))),m=1))
t('profile dup cands', lambda: PreferenceProfile(candidates=('A','A')))
t('combine overlap', lambda: comb([PI({'A':1,'B':1}),PI({'B':1})],[0.5,0.5]))
t('combine props', lambda: comb([PI({'A':1}),PI({'B':1})],[0.5,0.500001]))
t('combine props ok', lambda: comb([PI({'A':1}),PI({'B':1})],[0.5,0.5+1e-12]))
base=dict(candidates=['A','B'],pref_intervals_by_bloc={'X':{'X':PI({'A':1}),'Y':PI({'B':1})},'Y':{'X':PI({'A':1}),'Y':PI({'B':1})}},bloc_voter_prop={'X':0.5,'Y':0.5},cohesion_parameters={'X':{'X':0.7,'Y':0.3},'Y':{'Y':0.6,'X':0.4}})
import copy
def mod(**kw):
    d=copy.copy(base); d.update(kw); return d
t('nPL ok', lambda: bg.name_PlackettLuce(**base))
t('nPL props', lambda: bg.name_PlackettLuce(**mod(bloc_voter_prop={'X':0.5,'Y':0.500001})))
t('nPL coh', lambda: bg.name_PlackettLuce(**mod(cohesion_parameters={'X':{'X':0.7,'Y':0.300001},'Y':{'Y':0.6,'X':0.4}})))
t('nPL bloc mismatch', lambda: bg.name_PlackettLuce(**mod(bloc_voter_prop={'X':0.5,'Z':0.5})))
t('nPL coh inner mismatch', lambda: bg.name_PlackettLuce(**mod(cohesion_parameters={'X':{'X':0.7,'Z':0.3},'Y':{'Y':0.6,'X':0.4}})))
