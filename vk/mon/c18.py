"""C18 — cast-vote-record loading and saving keep every vote."""
import ast
import csv
import os
import shutil
from fractions import Fraction as F

from .. import canon, env, gen
from ..core import observe

META = {
    "level": "exploration",
    "rule": ("cases = generated CSV tables (1-6 rank columns, optional id and weight columns at every position, repeated rows, "
             "short ballots, names with spaces/quotes/commas/non-ASCII, delimiters , ; | tab) x rank_cols selections (all, "
             "subsets, re-orderings) plus the four documented malformed variants; generated Scottish-format files (any candidate "
             "count, blank rows) plus inconsistent-metadata variants; to_csv of generated profiles parsed back. Oracle: the "
             "expected profile is computed from the generated table itself. distinct = hash(case); non-trivial = >=2 rows sharing "
             "a pattern and a non-default column selection (csv) / >=2 equal ballots (scottish)."),
    "assumptions": ["candidate names are non-numeric strings (pandas would re-type numeric-looking cells)"],
    "min_obs": {"all": {"csv_loaded": 400, "csv_with_rank_cols": 100, "csv_with_id": 100, "csv_with_weight": 60,
                        "malformed_rejected": 60, "scottish_loaded": 100, "scottish_rejected": 30, "to_csv_checked": 100}},
}

NAMES = ["Ann", "Bob Lee", 'O"Neil', "Dee, Jr.", "é", "x y z", "UWI", "undervote", "Zoë-Ann", "it's", "semi;colon", "pipe|bar"]


NA_TOKENS = ["NA", "None", "null", "nan", "N/A", "NULL", "NaN", "n/a", "<NA>", "#N/A"]


def workfile(name):
    return os.path.join(env.workdir(), name)


def gen_csv_case(rnd, large=False):
    ncol = rnd.randint(1, 6)
    nrow = rnd.randint(1, 12)
    cands = rnd.sample(NAMES, rnd.randint(1, 6))
    if large:
        # beyond hand size: 10-14 rank columns (two-digit column numbers), 80-250 rows, up to 12 candidates, big weights
        ncol = rnd.randint(10, 14)
        nrow = rnd.randint(80, 250)
        cands = rnd.sample(NAMES + ["Cand %d" % i for i in range(1, 13)], rnd.randint(8, 12))
    if not large and rnd.random() < 0.04:
        cands = cands + [rnd.choice(NA_TOKENS[:6])]  # a candidate / write-in whose name looks like a missing-value marker
    delim = rnd.choice([",", ",", ";", "|", "\t"])
    rows = []
    for i in range(nrow):
        k = rnd.randint(0, ncol)
        r = [rnd.choice(cands) for _ in range(k)] + [""] * (ncol - k)
        if rnd.random() < 0.2:
            rnd.shuffle(r)
        rows.append(r)
    if rnd.random() < 0.5 and rows:
        for _ in range(rnd.randint(1, 3)):
            rows.insert(rnd.randrange(len(rows) + 1), list(rnd.choice(rows)))
    if all(all(x == "" for x in r) for r in rows):
        rows[0][0] = cands[0]
    # extra columns (id / weight) inserted at arbitrary file positions
    layout = ["r%d" % j for j in range(ncol)]
    has_id = rnd.random() < 0.5
    has_w = rnd.random() < 0.3
    if has_id:
        layout.insert(rnd.randint(0, len(layout)), "id")
    if has_w:
        layout.insert(rnd.randint(0, len(layout)), "w")
    weights = [rnd.choice([1, 1, 2, 3, 5] + ([10 ** 9, 10 ** 12 + 1, 123456789] if large else [])) for _ in rows]
    if has_w and rnd.random() < 0.4:
        # fractional weights (dyadic, so that their float sums are exact): 0.5, 1.75, 2.25 ...
        weights = [rnd.choice([0.5, 0.25, 1.5, 1.75, 2.25, 3.0, 0.125]) for _ in rows]
    sel = None
    if rnd.random() < 0.55:
        sel = rnd.sample(range(ncol), rnd.randint(1, ncol))
        if rnd.random() < 0.4:
            sel = sorted(sel)
    return {"kind": "csv", "ncol": ncol, "rows": rows, "delim": delim, "layout": layout, "weights": weights, "sel": sel}


def write_table(case, path, ids=None):
    layout, rows = case["layout"], case["rows"]
    header = [{"id": "voter id", "w": "weight"}.get(x, "rank %s" % x[1:]) for x in layout]
    with open(path, "w", newline="", encoding="utf8") as f:
        w = csv.writer(f, delimiter=case["delim"])
        w.writerow(header)
        for i, r in enumerate(rows):
            line = []
            for x in layout:
                if x == "id":
                    line.append(ids[i] if ids is not None else "v%d" % i)
                elif x == "w":
                    line.append(case["weights"][i])
                else:
                    line.append(r[int(x[1:])])
            w.writerow(line)


def check_csv(ctx, case):
    from votekit.cvr_loaders import load_csv

    path = workfile("g.csv")
    write_table(case, path)
    layout, rows, sel = case["layout"], case["rows"], case["sel"]
    has_id, has_w = "id" in layout, "w" in layout
    kw = {}
    ranks = list(range(case["ncol"])) if sel is None else sel
    if sel is not None:
        kw["rank_cols"] = [layout.index("r%d" % j) for j in sel]
    if has_id:
        kw["id_col"] = layout.index("id")
    if has_w:
        kw["weight_col"] = layout.index("w")
    if case["delim"] != ",":
        kw["delimiter"] = case["delim"]
    exp = {}
    for i, r in enumerate(rows):
        key = tuple(r[j] if r[j] != "" else None for j in ranks)
        e = exp.setdefault(key, [F(0), set()])
        e[0] += F(case["weights"][i]) if has_w else 1
        e[1].add("v%d" % i)
    shared = len(exp) < len(rows)
    ctx.case(case, nontrivial=shared and (sel is not None or has_id or has_w))
    kw0 = {k: (list(v) if isinstance(v, list) else v) for k, v in kw.items()}
    o = observe(load_csv, path, **kw)
    ctx.count("csv_loaded")
    if kw != kw0:
        ctx.fail("load_csv changed an argument object it was given (rank_cols list)", case, {"before": kw0, "after": kw})
        return
    if sel is not None:
        ctx.count("csv_with_rank_cols")
    if has_id:
        ctx.count("csv_with_id")
    if has_w:
        ctx.count("csv_with_weight")
    if not o.ok:
        ctx.fail(f"load_csv raised {o.etype} on a well-formed table", case,
                 {"msg": str(o.exc)[:200], "kw": kw, "tb": (o.tb or "")[-500:]})
        return
    p = o.value
    got = {}
    for b in p.ballots:
        if any(len(s) != 1 for s in b.ranking):
            ctx.fail("load_csv produced a tied position", case, {})
            return
        key = tuple(next(iter(s)) for s in b.ranking)
        if key in got:
            ctx.fail("load_csv: the same row pattern appears as two ballots", case, {"pattern": key})
            return
        got[key] = (b.weight, b.voter_set)
    def problem(exp):
        if set(got) != set(exp):
            return ("load_csv: ballots are not exactly the distinct row patterns of the selected rank columns in column order",
                    {"kw": kw, "got": sorted(map(str, got))[:6], "exp": sorted(map(str, exp))[:6]})
        for k in exp:
            if got[k][0] != exp[k][0]:
                return ("load_csv: ballot weight is not the number of rows (or the summed weight column) with that pattern",
                        {"kw": kw, "pattern": k, "got": str(got[k][0]), "exp": str(exp[k][0])})
            if has_id and got[k][1] != exp[k][1]:
                return ("load_csv: voter set of a ballot is not the set of ids of its rows",
                        {"kw": kw, "pattern": k, "got": sorted(map(str, got[k][1] or [])), "exp": sorted(exp[k][1])})
        if p.total_ballot_wt != sum((e[0] for e in exp.values()), F(0)):
            return ("load_csv: total weight differs from the row count / weight sum", {})
        return None

    pb = problem(exp)
    if pb is not None:
        # known finding csv-na-token: a cell whose text is one of pandas' default missing-value markers ("NA", "None", "null",
        # ...) is read as an empty cell.  Recognised by mechanism: such a cell stands in a selected rank column AND the result
        # is exactly what the table gives when those cells are blank.
        mech = None
        if any(r[j] in NA_TOKENS for r in rows for j in ranks):
            exp_na = {}
            for i, r in enumerate(rows):
                key = tuple(r[j] if (r[j] != "" and r[j] not in NA_TOKENS) else None for j in ranks)
                e = exp_na.setdefault(key, [F(0), set()])
                e[0] += F(case["weights"][i]) if has_w else 1
                e[1].add("v%d" % i)
            if problem(exp_na) is None:
                mech = "csv-na-token"
        ctx.fail(pb[0], case, pb[1], mech=mech)
        return
    if any(r[j] in NA_TOKENS for r in rows for j in ranks):
        ctx.count("tables_with_na_like_names_loaded_faithfully")
    # the same file and the same argument objects once more: same profile
    o2 = observe(load_csv, path, **kw)
    ctx.count("csv_loaded_again")
    if not o2.ok or canon.multiset(o2.value.ballots) != canon.multiset(p.ballots) or tuple(o2.value.candidates) != tuple(p.candidates) \
            or {b.ranking: b.voter_set for b in o2.value.ballots} != {b.ranking: b.voter_set for b in p.ballots}:
        ctx.fail("load_csv: loading the same file again with the same arguments gives another profile", case, {"second": repr(o2)[:200]})


def check_malformed(ctx, case):
    from votekit.cvr_loaders import load_csv
    from pandas.errors import EmptyDataError, DataError

    base = case["base"]
    v = case["variant"]
    path = workfile("m.csv")
    layout = base["layout"]
    ctx.case(case, nontrivial=True)
    kw = {}
    if "id" in layout:
        kw["id_col"] = layout.index("id")
    if base["delim"] != ",":
        kw["delimiter"] = base["delim"]
    if v == "missing":
        o = observe(load_csv, workfile("does_not_exist.csv"), **kw)
        want = FileNotFoundError
    elif v == "empty":
        b2 = dict(base)
        b2["rows"] = []
        write_table(b2, path)
        o = observe(load_csv, path, **kw)
        want = EmptyDataError
    elif v == "zero_bytes":
        open(path, "w").close()
        o = observe(load_csv, path, **kw)
        want = EmptyDataError
    elif v == "blank_id":
        ids = ["v%d" % i for i in range(len(base["rows"]))]
        ids[case["pos"] % len(ids)] = ""
        write_table(base, path, ids)
        o = observe(load_csv, path, **kw)
        want = ValueError
    else:  # dup_id
        ids = ["v%d" % i for i in range(len(base["rows"]))]
        ids[case["pos"] % len(ids)] = ids[(case["pos"] + 1) % len(ids)]
        write_table(base, path, ids)
        o = observe(load_csv, path, **kw)
        want = DataError
    ctx.count("malformed_rejected")
    if o.ok or not isinstance(o.exc, want):
        ctx.fail(f"load_csv: malformed input ({v}) not rejected with {want.__name__}", case, {"got": repr(o)[:200]})


def gen_scot_case(rnd):
    nc = rnd.choice([1, 2, 3, 4, 5, 6, 9, 10, 11, 12, 23])
    names = rnd.sample(NAMES + ["Cand %s" % chr(65 + i) for i in range(20)], nc)
    parties = [rnd.choice(["Orange (O)", "Yellow (Y)", "Ind", "A, B & C"]) for _ in names]
    nb = rnd.randint(1, 10)
    ballots = []
    for _ in range(nb):
        k = rnd.randint(1, nc)
        ballots.append([rnd.choice([1, 1, 2, 9, 126]), rnd.sample(range(1, nc + 1), k)])
    if rnd.random() < 0.5:
        ballots.append([3, list(ballots[0][1])])
    return {"kind": "scot", "names": names, "parties": parties, "seats": rnd.randint(1, nc), "ballots": ballots,
            "ward": rnd.choice(["Wardy McWard Ward", "Ward 7", "Leith, Walk"]), "blank_rows": rnd.random() < 0.4,
            "variant": rnd.choice(["ok", "ok", "ok", "overcount", "undercount", "bad_first_row", "zero_bytes", "missing"])}


def check_scot(ctx, case):
    from votekit.cvr_loaders import load_scottish
    from pandas.errors import EmptyDataError, DataError

    path = workfile("s.csv")
    names, v = case["names"], case["variant"]
    nc = len(names)
    rows = [[nc + (1 if v == "overcount" else -1 if v == "undercount" else 0), case["seats"], ""]]
    if v == "bad_first_row":
        rows = [[nc, case["seats"], 7, ""]]
    for w, prefs in case["ballots"]:
        rows.append([w] + prefs + [""])
        if case["blank_rows"]:
            rows.append(["", ""])
    for i, (nm, pty) in enumerate(zip(names, case["parties"])):
        rows.append(["Candidate %d" % (i + 1), nm, pty, ""])
    rows.append([case["ward"], ""])
    with open(path, "w", newline="", encoding="utf8") as f:
        csv.writer(f).writerows(rows)
    ctx.case(case, nontrivial=len({tuple(b[1]) for b in case["ballots"]}) < len(case["ballots"]))
    if v == "zero_bytes":
        open(path, "w").close()
    o = observe(load_scottish, path if v != "missing" else workfile("nope.csv"))
    if v != "ok":
        want = {"zero_bytes": EmptyDataError, "missing": FileNotFoundError}.get(v, DataError)
        ctx.count("scottish_rejected")
        if v == "undercount" and nc - 1 == 0:
            return  # 'zero candidates' metadata: not a documented case
        if o.ok or not isinstance(o.exc, want):
            ctx.fail(f"load_scottish: inconsistent input ({v}) not rejected with {want.__name__}", case, {"got": repr(o)[:200]})
        return
    ctx.count("scottish_loaded")
    if not o.ok:
        ctx.fail(f"load_scottish raised {o.etype} on a well-formed file", case, {"msg": str(o.exc)[:200]})
        return
    p, seats, cl, c2p, ward = o.value
    if seats != case["seats"] or ward != case["ward"] or list(cl) != names or c2p != dict(zip(names, case["parties"])):
        ctx.fail("load_scottish: seats / ward / candidate names / parties differ from the file", case,
                 {"seats": seats, "ward": ward, "cands": cl, "parties": c2p})
        return
    exp = {}
    for w, prefs in case["ballots"]:
        k = tuple(names[i - 1] for i in prefs)
        exp[k] = exp.get(k, F(0)) + w
    got = {}
    for b in p.ballots:
        k = tuple(next(iter(s)) for s in b.ranking)
        got[k] = got.get(k, F(0)) + b.weight
    if got != exp or tuple(p.candidates) != tuple(names):
        ctx.fail("load_scottish: ballots do not map the numeric entries to the declared candidates with the declared multiplicities",
                 case, {"got": {str(k): str(v) for k, v in got.items()}, "exp": {str(k): str(v) for k, v in exp.items()}})


def check_to_csv(ctx, case):
    spec = case["profile"]
    prof = canon.build_profile(spec)
    path = workfile("out.csv")
    snap0 = [(b.ranking, dict(b.scores) if b.scores else None, b.weight) for b in prof.ballots]
    o = observe(prof.to_csv, path)
    if [(b.ranking, dict(b.scores) if b.scores else None, b.weight) for b in prof.ballots] != snap0:
        ctx.fail("to_csv changed the profile it wrote", case, {})
        return
    ctx.count("to_csv_checked")
    ctx.case(case, nontrivial=len(spec["ballots"]) >= 2)
    if not o.ok:
        ctx.fail(f"to_csv raised {o.etype}", case, {"msg": str(o.exc)[:200]})
        return
    with open(path, newline="") as f:
        rows = list(csv.DictReader(f))
    if len(rows) != len(prof.ballots):
        ctx.fail("to_csv: not one row per ballot", case, {"rows": len(rows), "ballots": len(prof.ballots)})
        return
    for row, b in zip(rows, prof.ballots):
        try:
            w = float(row["weight"])
            rk = ast.literal_eval(row["ranking"])
            sc = ast.literal_eval(row["scores"])
        except Exception as e:  # noqa
            ctx.fail("to_csv: a row cannot be parsed back", case, {"row": row, "err": str(e)[:100]})
            return
        exp_rk = tuple(set(s) for s in b.ranking) if b.ranking else ()
        exp_sc = tuple((c, float(v)) for c, v in b.scores.items()) if b.scores else ()
        if abs(w - float(b.weight)) > 1e-12 * max(1, abs(w)) or tuple(rk) != exp_rk or tuple(sc) != exp_sc:
            ctx.fail("to_csv: a row does not carry the ballot's weight, ranking and scores", case,
                     {"row": row, "ballot": [canon.groups(b.ranking or ()), str(b.weight)]})
            return


def check_realistic(ctx):
    """README pipeline input: the bundled Minneapolis 2013 cast vote record"""
    from votekit.cvr_loaders import load_csv
    from .. import realistic as R

    rows = R.mn_rows()
    o = observe(load_csv, R.mn_path())
    case = {"kind": "realistic", "file": "votekit/data/mn_2013_cast_vote_record.csv", "rows": len(rows)}
    ctx.case(case, nontrivial=True)
    ctx.count("realistic_rows_loaded", len(rows))
    if not o.ok:
        ctx.fail(f"load_csv raised {o.etype} on the bundled Minneapolis cast vote record", case, {"msg": str(o.exc)[:200]})
        return
    got, exp = R.profile_ms(o.value), R.expected_loaded(rows)
    if got != exp or o.value.total_ballot_wt != len(rows) or len(o.value.ballots) != len(exp):
        bad = [k for k in set(got) | set(exp) if got.get(k) != exp.get(k)][:3]
        ctx.fail("load_csv on the Minneapolis cast vote record: ballots/weights differ from the row patterns of the file", case,
                 {"total": str(o.value.total_ballot_wt), "rows": len(rows), "examples": [[str(k), str(got.get(k)), str(exp.get(k))] for k in bad]})


def run(ctx):
    rnd = ctx.rnd
    if ctx.shard == 0:
        ctx.guard("realistic", check_realistic, ctx)
        # directed case of the known finding csv-na-token (re-observed on every run while it exists)
        ctx.guard("csv", check_csv, ctx, {"kind": "csv", "ncol": 2, "layout": ["r0", "r1"], "delim": ",", "sel": None,
                                          "rows": [["NA", "Bob Lee"], ["None", "Bob Lee"], ["", "Bob Lee"], ["Ann", "null"]],
                                          "weights": [1, 1, 1, 1]})
    try:
        for i in range(ctx.n(2200, 40000)):
            if ctx.expired():
                break
            c = gen_csv_case(rnd, large=(i % 40 == 11))
            if i % 40 == 11:
                ctx.count("large_tables")
            ctx.guard("csv", check_csv, ctx, c)
            if i % 4 == 0:
                base = dict(c)
                if "id" not in base["layout"]:
                    base["layout"] = ["id"] + base["layout"]
                base["layout"] = [x for x in base["layout"] if x != "w"]
                if len(base["rows"]) < 2:
                    base["rows"] = base["rows"] + [list(base["rows"][0])]
                    base["weights"] = base["weights"] + [1]
                ctx.guard("malformed", check_malformed, ctx, {"kind": "malformed", "base": base, "pos": rnd.randrange(50),
                                                           "variant": rnd.choice(["missing", "empty", "zero_bytes", "blank_id", "dup_id"])})
            if i % 3 == 0:
                ctx.guard("scot", check_scot, ctx, gen_scot_case(rnd))
            if i % 5 == 0:
                cs = rnd.sample(NAMES, rnd.randint(1, 4))
                bl = []
                for _ in range(rnd.randint(0, 5)):
                    t = rnd.random()
                    r = gen.ranking(rnd, cs, ties=rnd.random() < 0.4) if t < 0.8 else None
                    s = {c_: rnd.choice([1, 2, 0.5, F(3, 2)]) for c_ in rnd.sample(cs, rnd.randint(1, len(cs)))} if rnd.random() < 0.4 else None
                    bl.append(canon.spec_ballot(r=r, w=gen.weight(rnd, "mixed"), s=s))
                ctx.guard("to_csv", check_to_csv, ctx, {"kind": "to_csv", "profile": canon.spec_profile(cs, bl)})
    finally:
        shutil.rmtree(env.workdir(), ignore_errors=True)


def replay(ctx, case):
    try:
        if case["kind"] == "realistic":
            check_realistic(ctx)
        else:
            {"csv": check_csv, "malformed": check_malformed, "scot": check_scot, "to_csv": check_to_csv}[case["kind"]](ctx, case)
    finally:
        shutil.rmtree(env.workdir(), ignore_errors=True)
