"""C10 — randomness is used only to break genuine ties, and every tiebreak is recorded."""
from fractions import Fraction as F

from .. import canon, cases, rules, rng, oracle, gen
from ..ref import scoring, pairwise

NONRANDOM = [r for r in rules.ALL_RULES if r not in rules.INTENTIONALLY_RANDOM]

META = {
    "level": "exploration",
    "rule": ("cases = (rule other than RandomDictator/BoostedRandomDictator/PluralityVeto, no random transfer, tiebreak "
             "in {None, random, borda, first_place}, profile engineered to tie at the seat boundary / at the elimination "
             "end / nowhere); executions that consume randomness are re-executed over the scripted choice tree (all "
             "permutations for ties of size <= 4). Monitors: (a) outcomes differ across scripts => a tiebreak is recorded; "
             "(b) every recorded tiebreak K->R is a strict order of exactly K, K genuinely tied on the deciding tally at an "
             "order-relevant point, and the round's groups obey R; (c) borda/first_place resolutions are non-increasing on "
             "the reference score of the profile the rule passes. distinct = hash(cfg, profile, script); non-trivial = a "
             "recorded tiebreak or a run with draws == 0 on a tie-free profile."),
    "assumptions": ["per-rule reading of 'deciding tally' as in DESIGN.md §4 C10"],
    "min_obs": {"all": {"tiebreak_records_checked": 500, "tb_stv_elim": 50, "tb_stv_elect": 20, "tb_single_round": 100,
                        "tb_stage1": 30, "tb_condoborda": 20, "score_tiebreak_orders": 100, "det_runs_no_draws": 300,
                        "script_groups_compared": 200}},
}


def single(g):
    return next(iter(g))


def order_of(R):
    return [single(g) for g in R]


def valid_resolution(K, R):
    return all(len(g) == 1 for g in R) and sorted(map(str, order_of(R))) == sorted(map(str, K)) and len(R) == len(K)


def nonincreasing(order, sc):
    return all(sc[a] >= sc[b] for a, b in zip(order, order[1:]))


def ref_scores(kind, cands, ballots):
    return scoring.borda(cands, ballots) if kind == "borda" else scoring.first_place(cands, ballots)


def check_record_single(ctx, case, K, R, sc, m, elected_groups, remaining_groups, tbk, cands, ballots, label):
    order = order_of(R)
    if len({sc[c] for c in K}) != 1:
        ctx.fail(f"{label}: recorded tiebreak concerns candidates not tied on the deciding tally", case,
                 {"K": sorted(K), "scores": {str(c): str(sc[c]) for c in K}})
        return False
    above = sum(1 for c in sc if sc[c] > sc[next(iter(K))])
    if not (above < m < above + len(K)):
        ctx.fail(f"{label}: recorded tiebreak for a set that does not straddle the seat boundary", case,
                 {"K": sorted(K), "above": above, "m": m})
        return False
    need = m - above
    el = [c for g in elected_groups for c in g]
    inK = [c for c in el if c in K]
    if inK != order[:need]:
        ctx.fail(f"{label}: elected members of the tied set are not the prefix of the recorded resolution", case,
                 {"elected_in_K": inK, "resolution": order, "need": need})
        return False
    rem = [c for g in remaining_groups for c in g]
    remK = [c for c in rem if c in K]
    if remK != order[need:] or rem[: len(remK)] != remK:
        ctx.fail(f"{label}: non-elected members of the tied set do not follow the recorded resolution", case,
                 {"remaining": rem, "resolution": order})
        return False
    if tbk in ("borda", "first_place") and ballots is not None:
        ctx.count("score_tiebreak_orders")
        s2 = ref_scores(tbk, cands, ballots)
        if not nonincreasing(order, s2):
            ctx.fail(f"{label}: {tbk} tiebreak resolution is not ordered by that score", case,
                     {"resolution": order, "score": {str(c): str(s2[c]) for c in K}})
            return False
    return True


def plain_of_profile(prof):
    cands = list(prof.candidates)
    bl = [(tuple(tuple(g) for g in b.ranking), b.weight, None) for b in prof.ballots if b.ranking]
    return cands, bl


def check_stv_like(ctx, case, cfg, cands, ballots, states, threshold, label, tbk, log=None):
    """Every tiebreak recorded by an STV-family count is validated LOCALLY, on the observed tallies of the previous round
    and on the observed input profile of the step that recorded it (rules.STEP_LOG) - not through the reference trace,
    which a defect in the tie handling itself would invalidate."""
    by_state = {}
    for ent in (log or []):
        # only the steps of the STV-family object itself (a wrapper such as Alaska logs its own outer step with the same new state)
        if ent[4] is not None and hasattr(ent[0], "threshold"):
            by_state.setdefault(id(ent[4]), ent)
    for i in range(1, len(states)):
        s = states[i]
        if not s.tiebreaks:
            continue
        ent = by_state.get(id(s))
        if ent is None:
            ctx.count("stv_step_not_observed_skipped")
            continue
        obj, pin, prev_state = ent[0], ent[1], ent[2]
        prev = prev_state.scores
        T = getattr(obj, "threshold", threshold)
        init_c, init_b = plain_of_profile(obj._profile)
        init_fp = scoring.first_place(init_c, init_b)
        for K, R in s.tiebreaks.items():
            ctx.count("tiebreak_records_checked")
            if not valid_resolution(K, R):
                ctx.fail(f"{label}: recorded resolution is not a strict order of exactly the tied set", case,
                         {"K": sorted(K), "R": canon.groups(R)})
                return False
            order = order_of(R)
            if not all(c in prev for c in K) or len({prev[c] for c in K}) != 1:
                ctx.fail(f"{label}: recorded tiebreak concerns candidates not tied on the previous round's tallies", case,
                         {"round": i, "K": sorted(K), "prev": canon.scores_c(prev)})
                return False
            v = prev[next(iter(K))]
            elim = [c for g in s.eliminated for c in g]
            el = [c for g in s.elected for c in g]
            if elim and not el:
                ctx.count("tb_stv_elim")
                if v != min(prev.values()) or {c for c in prev if prev[c] == v} != set(K):
                    ctx.fail(f"{label}: elimination tiebreak recorded for a set that is not the lowest tally group", case,
                             {"round": i, "K": sorted(K)})
                    return False
                if elim != [order[-1]]:
                    ctx.fail(f"{label}: eliminated candidate is not the last of the recorded resolution", case,
                             {"round": i, "eliminated": canon.groups(s.eliminated), "resolution": order})
                    return False
                ctx.count("score_tiebreak_orders")
                if not nonincreasing(order, init_fp):
                    ctx.fail(f"{label}: elimination tie not ordered by initial first-place votes", case,
                             {"round": i, "resolution": order, "initial_fpv": {str(c): str(init_fp[c]) for c in K}})
                    return False
            elif el:
                ctx.count("tb_stv_elect")
                if getattr(obj, "simultaneous", True):
                    ctx.fail(f"{label}: tiebreak recorded in a simultaneous election round", case, {"round": i})
                    return False
                if v != max(prev.values()) or v < T or {c for c in prev if prev[c] == v} != set(K):
                    ctx.fail(f"{label}: election tiebreak recorded for a set that is not the top tally group at/above quota",
                             case, {"round": i, "K": sorted(K)})
                    return False
                if el != [order[0]]:
                    ctx.fail(f"{label}: elected candidate is not the first of the recorded resolution", case,
                             {"round": i, "elected": canon.groups(s.elected), "resolution": order})
                    return False
                if tbk in ("borda", "first_place"):
                    cur_c, cur_b = plain_of_profile(pin)
                    s2 = ref_scores(tbk, cur_c, cur_b)
                    ctx.count("score_tiebreak_orders")
                    if not nonincreasing(order, s2):
                        ctx.fail(f"{label}: {tbk} election tiebreak not ordered by that score of the current profile", case,
                                 {"round": i, "resolution": order, "score": {str(c): str(s2[c]) for c in K}})
                        return False
            else:
                ctx.fail(f"{label}: tiebreak recorded in a round that neither elects nor eliminates", case, {"round": i})
                return False
    return True


def check_outcome(ctx, case, e, log=None):
    """(b) and (c) on one finished election; returns number of tiebreak records seen"""
    cfg = case["cfg"]
    rule = cfg["rule"]
    cands, ballots = canon.plain(case["profile"])
    st = e.election_states
    tbk = cfg.get("tiebreak")
    ntb = sum(len(s.tiebreaks) for s in st)
    if ntb == 0:
        return 0
    for s in st:
        for K, R in s.tiebreaks.items():
            if not valid_resolution(K, R):
                ctx.fail(f"{rule}: recorded resolution is not a strict order of exactly the tied set", case,
                         {"K": sorted(map(str, K)), "R": canon.groups(R)})
                return ntb
    if rule in ("Plurality", "SNTV", "Borda") or rule in rules.SCORE_RULES:
        sc = oracle.deciding_scores(cfg, cands, ballots)
        for K, R in st[1].tiebreaks.items():
            ctx.count("tiebreak_records_checked")
            ctx.count("tb_single_round")
            check_record_single(ctx, case, K, R, sc, cfg["m"], st[1].elected, st[1].remaining, tbk,
                                cands, ballots if rule not in rules.SCORE_RULES else None, rule)
        if st[0].tiebreaks or len(st) > 2:
            ctx.fail(f"{rule}: tiebreak recorded outside the election round", case, {})
    elif rule == "CondoBorda":
        mg = pairwise.margins(cands, ballots)
        tiers = pairwise.tiers(cands, mg)
        bs = scoring.borda(cands, ballots)
        for K, R in st[1].tiebreaks.items():
            ctx.count("tiebreak_records_checked")
            ctx.count("tb_condoborda")
            if set(K) not in tiers:
                ctx.fail("CondoBorda: recorded tiebreak set is not a dominating tier", case, {"K": sorted(K)})
                continue
            above = sum(len(t) for t in tiers[: tiers.index(set(K))])
            m = cfg["m"]
            if not (above < m < above + len(K)):
                ctx.fail("CondoBorda: tiebreak recorded for a tier that does not straddle the seat boundary", case, {"K": sorted(K)})
                continue
            order = order_of(R)
            el = [c for g in st[1].elected for c in g if c in K]
            rem = [c for g in st[1].remaining for c in g if c in K]
            if el != order[: m - above] or rem != order[m - above:]:
                ctx.fail("CondoBorda: groups do not obey the recorded resolution", case, {"elected": el, "remaining": rem, "R": order})
                continue
            ctx.count("score_tiebreak_orders")
            if not nonincreasing(order, bs):
                ctx.fail("CondoBorda: resolution not ordered by Borda score", case, {"R": order, "borda": {str(c): str(bs[c]) for c in K}})
    elif rule in rules.STV_FAMILY:
        check_stv_like(ctx, case, cfg, cands, ballots, st, e.threshold, rule, tbk, log)
    elif rule in ("TopTwo", "Alaska"):
        m1 = 2 if rule == "TopTwo" else cfg["m_1"]
        fp = scoring.first_place(cands, ballots)
        s1 = st[1]
        adv = [c for g in s1.remaining for c in g]
        for K, R in s1.tiebreaks.items():
            ctx.count("tiebreak_records_checked")
            ctx.count("tb_stage1")
            order = order_of(R)
            if len({fp[c] for c in K}) != 1:
                ctx.fail(f"{rule}: stage-1 tiebreak for candidates not tied on first-place votes", case, {"K": sorted(K)})
                continue
            above = sum(1 for c in fp if fp[c] > fp[next(iter(K))])
            if not (above < m1 < above + len(K)):
                ctx.fail(f"{rule}: stage-1 tiebreak for a set that does not straddle the cut", case, {"K": sorted(K)})
                continue
            need = m1 - above
            advK = [c for c in adv if c in K]
            dropK = [c for g in s1.eliminated for c in g if c in K]
            if advK != order[:need] or dropK != order[need:]:
                ctx.fail(f"{rule}: stage-1 groups do not obey the recorded resolution (advancing = prefix, dropped = suffix)",
                         case, {"advancing": advK, "dropped": dropK, "R": order})
                continue
            if tbk in ("borda", "first_place"):
                ctx.count("score_tiebreak_orders")
                s2 = ref_scores(tbk, cands, ballots)
                if not nonincreasing(order, s2):
                    ctx.fail(f"{rule}: stage-1 {tbk} tiebreak not ordered by that score", case, {"R": order})
        keep = set(adv)
        c2 = [c for c in cands if c in keep]
        b2 = oracle.restrict(ballots, keep)
        if rule == "TopTwo":
            if len(st) > 2 and st[2].tiebreaks:
                fp2 = scoring.first_place(c2, b2)
                for K, R in st[2].tiebreaks.items():
                    ctx.count("tiebreak_records_checked")
                    ctx.count("tb_single_round")
                    check_record_single(ctx, case, K, R, fp2, 1, st[2].elected, st[2].remaining, tbk, c2, b2, "TopTwo stage 2")
        else:
            sub = {"rule": "STV", "m": cfg["m_2"], "quota": cfg.get("quota", "droop"), "sim": cfg.get("sim", True)}
            check_stv_like(ctx, case, sub, c2, b2, [st[1]] + st[2:], _alaska_T(c2, b2, sub), "Alaska stage 2", tbk, log)
    return ntb


def _alaska_T(c2, b2, sub):
    return oracle.stv_ref(sub, c2, b2).T


def _random_reseed(sd):
    """seed the GLOBAL generators inside an interposer context (its wrapped calls use private generators; anything unwrapped
    draws from the global ones)"""
    import random as _r
    import numpy as _n
    _r.seed(sd)
    _n.random.seed(sd % (2 ** 32))


def check_case(ctx, case, max_runs):
    cfg, spec = case["cfg"], case["profile"]
    prof = canon.build_profile(spec)
    def go():
        rules.STEP_LOG[0] = []
        try:
            o = rules.run(cfg, prof)[0]
            o.steplog = rules.STEP_LOG[0]
            return o
        finally:
            rules.STEP_LOG[0] = None

    script0 = case.get("script")
    if script0 is not None:
        r = rng.Rng("script", script=script0)
        with r:
            out = go()
        runs = [(script0, out, r)]
    else:
        runs = list(rng.explore(go, max_runs=max_runs, raw=True))
    sigs = []
    for script, out, r in runs:
        c2 = dict(case)
        c2["script"] = script
        if getattr(r, "divergence", None):
            ctx.fail(f"{cfg['rule']}: asked again in the same process, the count does not meet the random decisions it met before "
                     "(a decision that was drawn the first time is not drawn again)", c2, r.divergence)
            break
        if not out.ok:
            ctx.count("constructor_raised_skipped")
            ctx.case({"cfg": cfg, "profile": spec, "script": script})
            sigs.append((script, None, None, r.draws, None))
            continue
        e = out.value
        ntb = ctx.guard("check_outcome", check_outcome, ctx, c2, e, getattr(out, "steplog", None)) or 0
        if r.draws == 0:
            ctx.count("det_runs_no_draws")
            if ntb and cfg.get("tiebreak") == "random" and (
                    cfg["rule"] in ("Plurality", "SNTV", "Borda") or cfg["rule"] in rules.SCORE_RULES):
                ctx.fail(f"{cfg['rule']}: a random tiebreak is recorded but no randomness was consumed", c2, {})
        ctx.case({"cfg": cfg, "profile": spec, "script": script}, nontrivial=ntb > 0 or r.draws == 0)
        sigs.append((script, canon.jhash(canon.outcome_c(e)), ntb, r.draws,
                     canon.jhash([[s_.round_number, canon.tiebreaks_c(s_.tiebreaks)] for s_ in e.election_states])))
    # state leaks between elections: when an elimination/election tie was recorded, the same count is run again with two
    # of the tied candidates' names swapped throughout the profile - the same names are tied again, but every score order
    # among them is reversed, so a resolution remembered from the first count would now be wrong
    if script0 is None and not case.get("is_sibling"):
        for script, out, r in runs[:1]:
            if out.ok:
                tied = [K for s_ in out.value.election_states for K in s_.tiebreaks if len(K) >= 2]
                if tied:
                    K = sorted(tied[0])
                    a, b = K[0], K[1]
                    sw = {a: b, b: a}
                    sib = {"cands": [sw.get(c, c) for c in spec["cands"]],
                           "ballots": [dict(bb, r=None if bb.get("r") is None else [[sw.get(c, c) for c in g] for g in bb["r"]],
                                            **({"s": {sw.get(c, c): v for c, v in bb["s"].items()}} if bb.get("s") else {}))
                                       for bb in spec["ballots"]]}
                    ctx.count("swapped_name_siblings")
                    check_case(ctx, {"cfg": cfg, "profile": sib, "tag": "sibling", "is_sibling": True,
                                     "prelude": {"cfg": cfg, "profile": spec, "tag": case.get("tag"), "is_sibling": True}}, max_runs)
    oks = [s for s in sigs if s[1] is not None]
    if len(oks) > 1:
        ctx.count("script_groups_compared")
        if len({s[1] for s in oks}) > 1:
            for s in oks:
                if s[2] == 0:
                    c2 = dict(case)
                    c2["script"] = s[0]
                    ctx.fail(f"{cfg['rule']}: outcome depends on the random stream but no tiebreak is recorded", c2,
                             {"scripts": [x[0] for x in oks], "outcomes": [x[1] for x in oks]})
                    break
        # runs that record exactly the same tiebreaks (same sets, same resolutions, same rounds) made the same recorded
        # decisions: if their outcomes still differ, a random decision was taken that no round records
        bytb = {}
        for s in oks:
            bytb.setdefault(s[4], set()).add(s[1])
        ctx.count("same_tiebreak_record_groups", len(bytb))
        if any(len(v) > 1 for v in bytb.values()) and len({s[1] for s in oks}) > 1 and all(s[2] > 0 for s in oks):
            ctx.fail(f"{cfg['rule']}: runs that record identical tiebreaks have different outcomes (a random decision is taken "
                     "that no round records)", dict(case, script=oks[0][0]),
                     {"scripts": [x[0] for x in oks], "outcomes": [x[1] for x in oks], "tiebreak_records": [x[4] for x in oks]})
    # randomness the interposer cannot script (a primitive it does not wrap, a private generator), and a sample of the runs
    # that met no random call at all: the same request under three real seeds must give one outcome unless a tiebreak is
    # recorded - this does not depend on knowing where the randomness comes from
    if script0 is None and runs:
        hidden = any(r.unseen or r.private for _, _, r in runs)
        if hidden:
            ctx.count("runs_with_randomness_outside_the_wrapped_primitives")
        if hidden or (runs[0][2].draws == 0 and int(canon.jhash([cfg, spec])[:4], 16) % 5 == 0):
            outs = []
            for sd in (1, 7919, 104729):
                rr = rng.Rng("tap", seed=sd)
                with rr:
                    _random_reseed(sd)
                    o = go()
                outs.append((canon.jhash(canon.outcome_c(o.value)), sum(len(s_.tiebreaks) for s_ in o.value.election_states))
                            if o.ok else ("raised:" + str(o.etype), None))
            ctx.count("reseeded_groups_compared")
            good = [x for x in outs if x[1] is not None]
            if len({h for h, _ in good}) > 1 and any(n == 0 for _, n in good):
                ctx.fail(f"{cfg['rule']}: the outcome differs between random seeds but no tiebreak is recorded (randomness drawn "
                         "through a source the interposer does not script)", dict(case, script=[]),
                         {"outcomes_by_seed": [h for h, _ in outs], "hidden_draws_detected": hidden})
    # exception vs result must not depend on the stream either, unless a tiebreak is recorded somewhere
    if any(s[1] is None for s in sigs) and oks and all(s[2] == 0 for s in oks):
        ctx.count("mixed_exception_result_groups")


RULE_CYCLE = NONRANDOM + ["STV", "STV", "IRV", "SequentialRCV", "Alaska"]  # multi-round counts carry most of the tie logic


def plain_names(spec):
    """rename the candidates to A, B, C ...: many counts in one process then tie the same names, which exposes anything
    remembered between elections"""
    pi = {c: gen.PLAIN[i] for i, c in enumerate(spec["cands"])}
    return {"cands": [pi[c] for c in spec["cands"]],
            "ballots": [dict(b, r=None if b.get("r") is None else [[pi[c] for c in g] for g in b["r"]]) for b in spec["ballots"]]}


def gen_case(rnd, i, maxn):
    rule = RULE_CYCLE[i % len(RULE_CYCLE)]
    if rule in rules.SCORE_RULES:
        c = cases.score_case(rnd, rule)
    else:
        t = rnd.random()
        n = rnd.randint(2, maxn if rule not in rules.PAIRWISE else min(maxn, 6))
        if t < 0.55:
            tag = rnd.choice(["tie_top", "tie_bottom", "tie_boundary", "overquota", "cycle", "same"])
            spec, m = gen.hostile(rnd, tag, n=n)
            c = {"cfg": rules.random_cfg(rnd, rule, len(spec["cands"]), m=m), "profile": spec, "tag": tag}
        else:
            c = cases.ranking_case(rnd, rule, maxn=maxn if rule not in rules.PAIRWISE else min(maxn, 6))
    if c["cfg"].get("transfer") == "random":
        c["cfg"]["transfer"] = "fractional"
    if rule in rules.STV_FAMILY + ("Alaska",) and len(c["profile"]["cands"]) <= len(gen.PLAIN) and rnd.random() < 0.7:
        c["profile"] = plain_names(c["profile"])
    if "tiebreak" in c["cfg"] and rule not in rules.SCORE_RULES:
        c["cfg"]["tiebreak"] = rnd.choice([None, "random", "random", "borda", "first_place"])
    return c


def near_tie_case(rnd):
    """A genuine tie on the deciding tally whose score tiebreak separates the tied candidates by ONE unit at a magnitude of
    2^53..10^18 (or by 10^-20 at unit magnitude): the recorded resolution must follow the exact secondary score, no random
    fallback.  Three families: Plurality/SNTV + borda, Borda + first_place, STV-family elimination (initial first-place votes)."""
    from fractions import Fraction as F
    big = rnd.random() < 0.7
    W = F(rnd.choice([2 ** 53, 10 ** 17, 10 ** 18, 2 ** 60 + 1])) if big else F(rnd.choice([1, 3, 10]))
    u = F(1) if big else F(1, 10 ** 20)
    names = rnd.sample(gen.NAMES, 4)
    a, b, c, d = names
    B = lambda r, w: canon.spec_ballot(r=[[x] for x in r], w=w)  # noqa
    fam = rnd.choice(["plurality-borda", "borda-first_place", "stv-elimination"])
    if fam == "plurality-borda":
        cs = rnd.sample([a, b, c], 3)
        bl = [B([a, b, c], W), B([b, a, c], W), B([c, a, b], u)]
        cfg = {"rule": rnd.choice(["Plurality", "SNTV"]), "m": 1, "tiebreak": "borda"}
    elif fam == "borda-first_place":
        cs = rnd.sample([a, b, c], 3)
        bl = [B([a, b, c], W), B([b, a, c], W), B([a, c, b], u), B([c, b, a], 2 * u)]
        cfg = {"rule": "Borda", "m": 1, "tiebreak": "first_place"}
    else:
        cs = rnd.sample([a, b, c, d], 4)
        bl = [B([a, c], W + u), B([b, c], W), B([c, a], 3 * W), B([d, b], u)]
        rule = rnd.choice(["STV", "IRV", "SequentialRCV"])
        cfg = {"rule": rule, "quota": "droop", "tiebreak": rnd.choice(["random", "borda", "first_place"])}
        if rule != "IRV":
            cfg.update(m=1, sim=rnd.random() < 0.5)
        if rule == "STV":
            cfg["transfer"] = "fractional"
    rnd.shuffle(bl)
    return {"cfg": cfg, "profile": canon.spec_profile(cs, bl), "tag": "near-tie-" + fam}


def run(ctx):
    maxn = 6 if ctx.quick else 7
    max_runs = 5 if ctx.quick else 24
    for i in range(ctx.n(7000, 120000)):
        if ctx.expired():
            break
        ctx.guard("check", check_case, ctx, gen_case(ctx.rnd, i + ctx.shard, maxn), max_runs)
        if i % 25 == 0:
            ctx.count("near_tie_cases")
            ctx.guard("check", check_case, ctx, near_tie_case(ctx.rnd), max_runs)


def replay(ctx, case):
    check_case(ctx, case, 1 if case.get("script") is not None else 5)
