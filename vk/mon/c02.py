"""C02 — each STV / IRV / SequentialRCV round is a legal step of the documented count
(trace validation against vk.ref.stv)."""
from .. import canon, cases, rules, rng, oracle, gen

META = {
    "level": "exploration",
    "rule": ("cases = (STV|IRV|SequentialRCV configuration, untied generated profile, RNG script); every recorded "
             "round is validated against the nondeterministic reference step relation, following the observed choice "
             "at ties. distinct = hash(cfg, profile, script); non-trivial = a surplus transfer with tally>threshold "
             "and an elimination in the same run, or a followed tie."),
    "assumptions": ["reference step relation vk/ref/stv.py is the reading of the C02 statement",
                    "runs whose constructor raises are judged by C01, not here"],
    "min_obs": {"all": {"traces_validated": 200, "rounds_validated": 600, "surplus_rounds": 50, "elim_rounds": 100,
                        "default_rounds": 10, "ties_followed": 10, "transfer_calls_spied": 50}},
}


def state_rec(s):
    return {"elected": {c for g in s.elected for c in g}, "eliminated": {c for g in s.eliminated for c in g},
            "scores": dict(s.scores), "remaining": [frozenset(g) for g in s.remaining]}


def check_case(ctx, case, max_runs):
    cfg, spec = case["cfg"], case["profile"]
    cands, ballots = canon.plain(spec)
    prof = ctx.guard("build_profile", canon.build_profile, spec)
    if prof is None:
        return
    ref = oracle.stv_ref(cfg, cands, ballots)
    spied = []
    tr = None
    if cfg["rule"] == "STV":
        real = rules.transfer_fn(cfg.get("transfer", "fractional"))

        def tr(winner, fpv, bl, threshold):
            spied.append((winner, fpv, threshold, [b for b in bl]))
            return real(winner, fpv, bl, threshold)

    def go():
        del spied[:]
        return rules.run(cfg, prof, transfer_override=tr)[0]

    script0 = case.get("script")
    if script0 is not None:
        r = rng.Rng("script", script=script0)
        with r:
            out = go()
        runs = [(script0, out, r)]
    else:
        runs = rng.explore(go, max_runs=max_runs, raw=True)
    for script, out, r in runs:
        c2 = dict(case)
        c2["script"] = script
        if not out.ok:
            ctx.count("constructor_raised_skipped")
            ctx.case({"cfg": cfg, "profile": spec, "script": script})
            continue
        e = out.value
        try:
            states = [state_rec(s) for s in e.election_states]
            probs, info = ref.validate(states, e.threshold)
        except Exception:
            ctx.harness_error("ref.validate")
            continue
        ctx.count("traces_validated")
        if info.get("over_quota"):
            ctx.count("over_quota_trace_cut")
        ctx.count("rounds_validated", info["rounds"])
        ctx.count("surplus_rounds", info["surplus"])
        ctx.count("elim_rounds", info["elim_rounds"])
        ctx.count("default_rounds", info["default_rounds"])
        ctx.count("ties_followed", info["ties_followed"])
        for p in probs[:1]:
            ctx.fail(f"{cfg['rule']}: round is not a legal step: {p[0]}", c2,
                     {"problem": p, "outcome": canon.outcome_c(e), "threshold": str(e.threshold), "ref_T": str(ref.T)})
        # a tie for first among candidates at/above the quota, more of them than seats are left, and no tiebreak requested:
        # the count must have stopped with ValueError (C01's clause, decided here because only the trace shows such a round)
        if not probs and cfg.get("tiebreak") is None:
            for rec in info["per_round"]:
                if rec["kind"] == "elect" and rec["nchoices"] > 1:
                    ctx.count("one_by_one_ties_for_first_without_tiebreak")
                    if rec["seats_left_before"] < rec["nchoices"]:
                        ctx.fail(f"{cfg['rule']}: candidates tied at/above the quota straddle the last seat, no tiebreak was requested, "
                                 "and a result was returned instead of ValueError", c2,
                                 {"tally": canon.scores_c(rec["tally_before"]), "elected": rec["choice"], "seats_left": rec["seats_left_before"]})
                        break
        # threshold never changes: every transfer call saw the same threshold and the winner's tally
        for (w, fpv, th, bl) in spied:
            ctx.count("transfer_calls_spied")
            if th != ref.T:
                ctx.fail("transfer called with a threshold different from the election threshold", c2,
                         {"winner": w, "threshold_arg": str(th), "T": str(ref.T)})
            if any((not b.ranking) or b.ranking[0] != frozenset([w]) for b in bl):
                ctx.fail("transfer applied to ballots not led by the winner", c2, {"winner": w})
        if getattr(e, "threshold", None) != ref.T and not probs:
            ctx.fail("threshold changed after construction", c2, {"threshold": str(e.threshold)})
        nontriv = (info["surplus"] > 0 and info["elim_rounds"] > 0) or info["ties_followed"] > 0
        ctx.case({"cfg": cfg, "profile": spec, "script": script}, nontrivial=nontriv, sample=len(spec["ballots"]) < 40)


def gen_case(rnd, maxn):
    rule = rnd.choice(["STV", "STV", "STV", "IRV", "SequentialRCV"])
    c = cases.ranking_case(rnd, rule, maxn=maxn)
    if rule == "STV":
        c["cfg"]["transfer"] = "fractional"
    return c


def realistic_case():
    """README pipeline: IRV on the cleaned Minneapolis 2013 cast vote record (35 candidates, ~6.9k distinct ballots)"""
    from votekit.cvr_loaders import load_csv
    from votekit.cleaning import remove_noncands
    from .. import realistic as R

    prof = remove_noncands(load_csv(R.mn_path()), R.NONCANDS)
    return {"cfg": {"rule": "IRV", "quota": "droop", "tiebreak": "random"}, "profile": canon.spec_of_profile(prof), "tag": "minneapolis"}


def run(ctx):
    max_runs = 4 if ctx.quick else 30
    if not ctx.quick and ctx.shard == 0:
        c = ctx.guard("realistic_case", realistic_case)
        if c is not None:
            ctx.guard("realistic", check_case, ctx, c, 1)
            ctx.count("realistic_irv_minneapolis")
    maxn = 6 if ctx.quick else 8
    if ctx.shard == 0:
        for c in cases.directed_cases():
            if c["cfg"]["rule"] in rules.STV_FAMILY and c["cfg"].get("transfer", "fractional") == "fractional":
                check_case(ctx, c, max_runs)
    for i in range(ctx.n(9000, 200000)):
        if ctx.expired():
            break
        c = gen_case(ctx.rnd, maxn)
        check_case(ctx, c, max_runs)
        if i % 4 == 0:
            sib = cases.sibling_weights_permuted(ctx.rnd, c["profile"])
            if sib is not None:
                ctx.count("sibling_profiles")
                check_case(ctx, {"cfg": c["cfg"], "profile": sib, "tag": "sibling", "prelude": c}, max_runs)


def replay(ctx, case):
    check_case(ctx, case, 1)
