"""C19 — Lp profile distance is a true metric; the ballot graph is complete and exact."""
import itertools
from fractions import Fraction as F

from .. import canon, gen
from ..core import observe

META = {
    "level": "exploration",
    "rule": ("Lp cases = triples of generated profiles over a common candidate set (untied rankings, partial ballots, rational "
             "weights) x p in {1,2,3,5,'inf'}: value vs exact rational p-norm of the normalised distributions (rel 1e-9), "
             "exact zero for reordered / condensed / rescaled copies, symmetry, triangle inequality (1e-12). Graph cases: "
             "BallotGraph(n) for n=1..6 compared node-for-node and edge-for-edge with an explicit reference (finite space, "
             "enumerated completely on every run); BallotGraph(profile): every cast ballot's weight on its node, node weights "
             "sum to the total weight. distinct = hash(case); non-trivial = three pairwise different distributions (Lp) / a "
             "profile with a length n-1 ballot (graph)."),
    "assumptions": ["float comparison tolerances: value 1e-9 relative, symmetry/triangle 1e-12 absolute"],
    "exhaustive_subcheck": "BallotGraph(n).graph for n = 2..6: all nodes and edges compared with the reference graph",
    "min_obs": {"all": {"lp_triples": 300, "lp_values_checked": 1500, "zero_distance_checks": 600, "graphs_enumerated": 5,
                        "graph_nodes_compared": 1400, "profile_graphs": 200}},
}

PS = [1, 2, 3, 5, "inf"]


def dist(spec):
    d = {}
    tot = sum((canon.pf(b["w"]) for b in spec["ballots"]), F(0))
    for b in spec["ballots"]:
        k = tuple(frozenset(g) for g in b["r"])  # a tied position is a set: {A,B} is neither A>B nor B>A
        d[k] = d.get(k, F(0)) + canon.pf(b["w"]) / tot
    return d


def ref_lp(A, B, p):
    keys = set(A) | set(B)
    diffs = [abs(A.get(k, F(0)) - B.get(k, F(0))) for k in keys]
    if p == "inf":
        return float(max(diffs))
    return float(sum(d ** p for d in diffs)) ** (1.0 / p)


def snap(prof):
    return (tuple(prof.candidates), tuple((b.ranking, b.weight) for b in prof.ballots), prof.total_ballot_wt)


def check_lp(ctx, case):
    from votekit.metrics import lp_dist
    from votekit import PreferenceProfile, Ballot

    specs = case["profiles"]
    P = [canon.build_profile(s) for s in specs]
    D = [dist(s) for s in specs]
    snaps = [snap(q) for q in P]
    ctx.count("lp_triples")
    ctx.case(case, nontrivial=D[0] != D[1] and D[1] != D[2] and D[0] != D[2])
    for p in PS:
        d = [[None] * 3 for _ in range(3)]
        for i in range(3):
            for j in range(3):
                o = observe(lp_dist, P[i], P[j], p)
                if not o.ok:
                    ctx.fail(f"lp_dist raised {o.etype}", case, {"p": p, "msg": str(o.exc)[:200]})
                    return
                d[i][j] = float(o.value)
                exp = ref_lp(D[i], D[j], p)
                ctx.count("lp_values_checked")
                if abs(d[i][j] - exp) > 1e-9 * max(1.0, exp):
                    ctx.fail("lp_dist differs from the p-norm of the difference of the normalised distributions", case,
                             {"p": p, "pair": [i, j], "got": d[i][j], "exp": exp})
                    return
                if exp >= 1e-13 and not (0.5 * exp <= d[i][j] <= 2 * exp):
                    ctx.fail("lp_dist of two nearly equal distributions is far (relatively) from the p-norm of their difference", case,
                             {"p": p, "pair": [i, j], "got": d[i][j], "exp": exp})
                    return
                if (D[i] == D[j]) != (d[i][j] == 0):
                    ctx.fail("lp_dist is zero for different distributions or non-zero for equal ones", case,
                             {"p": p, "pair": [i, j], "got": d[i][j]})
                    return
        for i in range(3):
            for j in range(3):
                if abs(d[i][j] - d[j][i]) > 1e-12:
                    ctx.fail("lp_dist is not symmetric", case, {"p": p, "pair": [i, j], "d_ij": d[i][j], "d_ji": d[j][i]})
                    return
                for k in range(3):
                    if d[i][k] > d[i][j] + d[j][k] + 1e-12:
                        ctx.fail("lp_dist violates the triangle inequality", case,
                                 {"p": p, "ijk": [i, j, k], "d_ik": d[i][k], "d_ij": d[i][j], "d_jk": d[j][k]})
                        return
        # zero exactly for reordered, condensed, rescaled copies
        base = P[0]
        cs = tuple(specs[0]["cands"])
        copies = {
            "reordered": PreferenceProfile(ballots=tuple(reversed(base.ballots)), candidates=cs),
            "rescaled": PreferenceProfile(ballots=tuple(Ballot(ranking=b.ranking, weight=b.weight * F(7, 3)) for b in base.ballots), candidates=cs),
            "condensed": base.condense_ballots(),
            "split": PreferenceProfile(ballots=tuple(Ballot(ranking=b.ranking, weight=b.weight / 2) for b in base.ballots) * 2, candidates=cs),
        }
        for name, q in copies.items():
            for a, b_ in ((base, q), (q, base)):
                o = observe(lp_dist, a, b_, p)
                ctx.count("zero_distance_checks")
                if not o.ok or o.value != 0:
                    ctx.fail(f"lp_dist to a {name} copy of the same distribution is not exactly zero", case,
                             {"p": p, "got": repr(o)[:100]})
                    return
    if [snap(q) for q in P] != snaps:
        ctx.fail("lp_dist changed a profile it compared", case, {})


def refgraph(n):
    nodes = set()
    for L in range(1, n + 1):
        if L == n - 1:
            continue
        nodes |= set(itertools.permutations(range(1, n + 1), L))
    edges = set()
    for a in nodes:
        for i in range(len(a) - 1):
            b = list(a)
            b[i], b[i + 1] = b[i + 1], b[i]
            b = tuple(b)
            if b in nodes:
                edges.add(frozenset((a, b)))
        if len(a) >= 2 and a[:-1] in nodes:
            edges.add(frozenset((a, a[:-1])))
        if len(a) == n and n >= 3 and a[:-2] in nodes:
            edges.add(frozenset((a, a[:-2])))
    return nodes, edges


def check_graph_n(ctx, n):
    from votekit.graphs import BallotGraph

    case = {"kind": "graph_n", "n": n}
    o = observe(BallotGraph, n)
    ctx.case(case, nontrivial=n >= 3)
    if not o.ok:
        ctx.fail(f"BallotGraph({n}) raised {o.etype}", case, {"msg": str(o.exc)[:200]})
        return
    g = o.value.graph
    N, E = refgraph(n)
    ctx.count("graphs_enumerated")
    ctx.count("graph_nodes_compared", len(N))
    ctx.count("graph_edges_compared", len(E))
    gn = set(g.nodes)
    if gn != N or len(list(g.nodes)) != len(N):
        ctx.fail(f"BallotGraph({n}): node set is not exactly the rankings of length 1..n except n-1", case,
                 {"extra": sorted(map(str, gn - N))[:5], "missing": sorted(map(str, N - gn))[:5]})
        return
    ge = set(frozenset(e) for e in g.edges if e[0] != e[1])
    loops = [e for e in g.edges if e[0] == e[1]]
    if ge != E or loops:
        ctx.fail(f"BallotGraph({n}): edges are not exactly adjacent swaps and add/remove-last moves", case,
                 {"extra": [sorted(map(str, e)) for e in list(ge - E)[:4]], "missing": [sorted(map(str, e)) for e in list(E - ge)[:4]],
                  "self_loops": len(loops)})


def check_profile_graph(ctx, case):
    from votekit.graphs import BallotGraph

    spec = case["profile"]
    cands = spec["cands"]
    n = len(cands)
    prof = canon.build_profile(spec)
    snap0 = snap(prof)
    has_short = any(len(b["r"]) == n - 1 for b in spec["ballots"])
    ctx.case(case, nontrivial=has_short)
    o = observe(BallotGraph, prof)
    ctx.count("profile_graphs")
    if not o.ok:
        ctx.fail(f"BallotGraph(profile) raised {o.etype}", case, {"msg": str(o.exc)[:200]})
        return
    bg = o.value
    num = {c: i + 1 for i, c in enumerate(cands)}
    exp = {}
    for b in spec["ballots"]:
        node = [num[g[0]] for g in b["r"]]
        if len(node) == n - 1:
            node = node + [x for x in range(1, n + 1) if x not in node]
        exp[tuple(node)] = exp.get(tuple(node), F(0)) + canon.pf(b["w"])
    got = {k: v for k, v in bg.node_weights.items() if v != 0}
    if got != exp:
        ctx.fail("BallotGraph(profile): a cast ballot's weight is not on its node", case,
                 {"got": {str(k): str(v) for k, v in got.items()}, "exp": {str(k): str(v) for k, v in exp.items()}})
        return
    tot = sum((canon.pf(b["w"]) for b in spec["ballots"]), F(0))
    if sum(bg.node_weights.values()) != tot or bg.num_voters != tot:
        ctx.fail("BallotGraph(profile): node weights do not add up to the profile's total weight", case,
                 {"sum": str(sum(bg.node_weights.values())), "total": str(tot)})
        return
    gw = {k: d["weight"] for k, d in bg.graph.nodes(data=True) if d.get("weight")}
    if gw != exp:
        ctx.fail("BallotGraph(profile): graph node 'weight' attributes differ from the cast weights", case, {})
        return
    N, E = refgraph(n)
    if set(bg.graph.nodes) != N:
        ctx.fail("BallotGraph(profile): node set differs from the ballot graph on n candidates", case, {})
        return
    ge = set(frozenset(e) for e in bg.graph.edges if e[0] != e[1])
    if ge != E or any(e[0] == e[1] for e in bg.graph.edges):
        ctx.fail("BallotGraph(profile): edges differ from the ballot graph on n candidates", case,
                 {"extra": len(ge - E), "missing": len(E - ge)})
        return
    # the profile is left as it was, and a second graph from the same profile object (after graphs of other profiles were
    # built in this process) carries the same weights
    if snap(prof) != snap0:
        ctx.fail("BallotGraph(profile) changed the profile it was built from", case, {})
        return
    o2 = observe(BallotGraph, prof)
    ctx.count("profile_graphs_built_again")
    if not o2.ok or {k: v for k, v in o2.value.node_weights.items() if v != 0} != exp or \
            {k: d["weight"] for k, d in o2.value.graph.nodes(data=True) if d.get("weight")} != exp:
        ctx.fail("BallotGraph(profile): a second graph built from the same profile object carries other weights", case, {})
        return
    if {k: v for k, v in bg.node_weights.items() if v != 0} != exp or {k: d["weight"] for k, d in bg.graph.nodes(data=True) if d.get("weight")} != exp:
        ctx.fail("BallotGraph(profile): building a second graph changed the first one", case, {})


def run(ctx):
    rnd = ctx.rnd
    if ctx.shard == 0:
        ctx.guard("graph_n", check_graph_n, ctx, 1)  # one candidate: the single node (1,)
    if ctx.shard < 5:
        ctx.guard("graph_n", check_graph_n, ctx, 2 + ctx.shard)
    if ctx.nshards < 5 and ctx.shard == 0:
        for n in range(2 + ctx.nshards, 7):
            ctx.guard("graph_n", check_graph_n, ctx, n)
    for i in range(ctx.n(1200, 20000)):
        if ctx.expired():
            break
        n = rnd.randint(2, 5)
        cs = gen.cands(rnd, n)
        if rnd.random() < 0.3:
            # names whose concatenations are ambiguous ("1"+"2" vs "12"): rankings must be told apart as tuples, not as text
            cs = rnd.sample(["1", "2", "12", "21", "A", "B", "AB", "BA", "112"], n)
        tied = rnd.random() < 0.25
        if tied:
            ctx.count("lp_triples_with_tied_positions")
        specs = [gen.ranked(rnd, cs=cs, nb=rnd.randint(1, 5), wkind=rnd.choice(["int", "rat"]), ties=tied) for _ in range(3)]
        if tied and n >= 2:
            # a tied pair in one profile, the same candidates in a strict order in another: different rankings
            a, b_ = rnd.sample(cs, 2)
            specs[0]["ballots"].append(canon.spec_ballot(r=[[a, b_]], w=gen.weight(rnd, "int")))
            specs[1]["ballots"].append(canon.spec_ballot(r=[[a], [b_]], w=gen.weight(rnd, "int")))
        if rnd.random() < 0.3 and n >= 3:
            # look-alike pair cast in different profiles: a rotation of the same candidates
            r0 = rnd.sample(cs, n)
            specs[0]["ballots"].append(canon.spec_ballot(r=[[c] for c in r0], w=gen.weight(rnd, "rat")))
            specs[1]["ballots"].append(canon.spec_ballot(r=[[c] for c in r0[1:] + r0[:1]], w=gen.weight(rnd, "rat")))
            specs[2]["ballots"].append(canon.spec_ballot(r=[[c] for c in r0[-1:] + r0[:-1]], w=gen.weight(rnd, "rat")))
        if rnd.random() < 0.2:
            specs[1] = {"cands": cs, "ballots": list(reversed(specs[0]["ballots"]))}
        if i % 8 == 3:
            # nearly equal distributions: an electorate of 10^9..10^11 voters, the profiles differ by one to three votes (or a
            # ballot type of weight ~10^-9 is added at unit magnitude) - the distances are tiny but not zero
            from fractions import Fraction as F
            base = specs[0]["ballots"]
            if rnd.random() < 0.6:
                W = rnd.choice([10 ** 9, 2 * 10 ** 10, 10 ** 11])
                big = [dict(b, w=canon.fs(canon.pf(b["w"]) * W)) for b in base]
                unit = F(1)
            else:
                big = [dict(b) for b in base]
                unit = F(1, 10 ** 9)
            others = []
            for k in (1, 2):
                bl2 = [dict(b) for b in big]
                j = rnd.randrange(len(bl2))
                bl2[j]["w"] = canon.fs(canon.pf(bl2[j]["w"]) + k * unit * rnd.randint(1, 3))
                others.append({"cands": cs, "ballots": bl2})
            specs = [{"cands": cs, "ballots": big}] + others
            ctx.count("nearly_equal_triples")
        ctx.guard("lp", check_lp, ctx, {"kind": "lp", "profiles": specs})
        n2 = rnd.randint(2, 5)
        cs2 = gen.cands(rnd, n2)
        sp = gen.ranked(rnd, cs=cs2, nb=rnd.randint(0, 6))
        if n2 >= 2 and rnd.random() < 0.5:
            sp["ballots"].append(canon.spec_ballot(r=[[c] for c in rnd.sample(cs2, n2 - 1)], w=gen.weight(rnd, "rat")))
        ctx.guard("pgraph", check_profile_graph, ctx, {"kind": "pgraph", "profile": sp})
        if i % 20 == 9:
            # a one-candidate profile: its whole weight sits on the single node
            c1 = gen.cands(rnd, 1)
            sp1 = canon.spec_profile(c1, [canon.spec_ballot(r=[[c1[0]]], w=gen.weight(rnd, "rat")) for _ in range(rnd.randint(1, 3))])
            ctx.count("one_candidate_profile_graphs")
            ctx.guard("pgraph", check_profile_graph, ctx, {"kind": "pgraph", "profile": sp1})


def replay(ctx, case):
    if case["kind"] == "lp":
        check_lp(ctx, case)
    elif case["kind"] == "graph_n":
        check_graph_n(ctx, case["n"])
    else:
        check_profile_graph(ctx, case)
