"""C15 — closed-form model probabilities equal their definitions."""
import itertools
from fractions import Fraction as F

from .. import canon, bgparams as bp
from ..core import observe

META = {
    "level": "exploration",
    "rule": ("cases = preference intervals (1-7 candidates, supports over 6 orders of magnitude, zero supports), cohesion values "
             "in (0,1) and at 0/1, 1-3 blocs (slate-BT: <= 2), slate size combinations with <= 7 candidates. Each table "
             "(PreferenceInterval, combine_preference_intervals, pref_interval_by_bloc, name_BradleyTerry.pdfs_by_bloc, "
             "slate_BradleyTerry.ballot_type_pdf) is recomputed from the definition in exact rationals of the float inputs "
             "and compared cell by cell (rel. tol 1e-9), keys exactly the rankings / distinct orderings, sum 1. distinct = "
             "hash(case); non-trivial = >=3 candidates in a table and (a zero support or an extreme cohesion or >=2 blocs)."),
    "assumptions": ["float inputs are read as their exact binary values; comparison tolerance 1e-9 relative because the code works in floats"],
    "min_obs": {"all": {"intervals_checked": 300, "combined_checked": 300, "name_bt_tables": 150, "slate_bt_tables": 100,
                        "table_cells": 5000, "zero_support_tables": 50, "extreme_cohesion_tables": 20}},
}

TOL = 1e-9


def close(a, b):
    a, b = float(a), float(b)
    return abs(a - b) <= TOL * max(abs(a), abs(b), 1e-300) or abs(a - b) < 1e-300


def ref_interval(d):
    tot = sum((F(v) for v in d.values()), F(0))
    nz = {c: F(v) / tot for c, v in d.items() if v > 0}
    return nz, {c for c, v in d.items() if v == 0}


def check_interval(ctx, case):
    from votekit.pref_interval import PreferenceInterval, combine_preference_intervals

    d = case["interval"]
    dd = dict(d)
    o = observe(PreferenceInterval, dd)
    ctx.count("intervals_checked")
    ctx.case(case, nontrivial=len(d) >= 3 and any(v == 0 for v in d.values()))
    if not o.ok:
        ctx.fail(f"PreferenceInterval raised {o.etype}", case, {"msg": str(o.exc)[:200]})
        return
    pi = o.value
    nz, z = ref_interval(d)
    if set(pi.interval) != set(nz) or set(pi.zero_cands) != z or set(pi.non_zero_cands) != set(nz) or set(pi.candidates) != set(d):
        ctx.fail("PreferenceInterval: zero-support candidates are not set aside exactly", case,
                 {"interval": sorted(pi.interval), "zero": sorted(pi.zero_cands)})
        return
    if any(not close(pi.interval[c], nz[c]) for c in nz) or not close(sum(pi.interval.values()), 1):
        ctx.fail("PreferenceInterval: supports are not rescaled to sum to one", case, {"got": dict(pi.interval)})
        return
    ctx.count("table_cells", len(nz))
    # used as an operand (alone, and together with itself) the object and the dictionary it was made from stay as they were
    first = (dict(pi.interval), set(pi.zero_cands), set(pi.non_zero_cands), set(pi.candidates))
    for ivs, cohs in (([pi], [1.0]), ([pi], [0.5]), ([pi, pi], [0.25, 0.75])):
        oc = observe(combine_preference_intervals, ivs, cohs)
        ctx.count("interval_reused_as_operand")
        if (dict(pi.interval), set(pi.zero_cands), set(pi.non_zero_cands), set(pi.candidates)) != first or dd != d:
            ctx.fail("combine_preference_intervals changed its operand (or PreferenceInterval changed the dictionary it was given)", case, {})
            return
        if len(ivs) == 1 and oc.ok and cohs == [1.0]:
            ci = oc.value
            if set(ci.interval) != set(nz) or set(ci.zero_cands) != z or any(not close(ci.interval[c], nz[c]) for c in nz):
                ctx.fail("combine_preference_intervals([x], [1]) is not x", case, {"got": dict(ci.interval)})
                return


def ref_combined(params, bloc):
    out, zero = {}, set()
    for s, d in params["pref_intervals_by_bloc"][bloc].items():
        nz, z = ref_interval(d)
        zero |= z
        share = F(params["cohesion_parameters"][bloc][s])
        for c, v in nz.items():
            if v * share > 0:
                out[c] = v * share
            else:
                zero.add(c)
    tot = sum(out.values(), F(0))
    return {c: v / tot for c, v in out.items()}, zero


def ref_name_bt(interval):
    cs = list(interval)
    tab = {}
    for perm in itertools.permutations(cs):
        pr = F(1)
        for i in range(len(perm)):
            for j in range(i + 1, len(perm)):
                pr *= interval[perm[i]] / (interval[perm[i]] + interval[perm[j]])
        tab[perm] = pr
    tot = sum(tab.values(), F(0))
    return {k: v / tot for k, v in tab.items()}


def ref_slate_bt(params, bloc, opp):
    n_own = sum(1 for v in params["pref_intervals_by_bloc"][bloc][bloc].values() if v > 0)
    n_opp = sum(1 for v in params["pref_intervals_by_bloc"][bloc][opp].values() if v > 0)
    c = F(params["cohesion_parameters"][bloc][bloc])
    tab = {}
    # distinct orderings of the multiset; own slate listed in the generator's bloc order
    for pos in itertools.combinations(range(n_own + n_opp), n_own):
        t = [opp] * (n_own + n_opp)
        for i in pos:
            t[i] = bloc
        own_above = sum(t[i + 1:].count(opp) for i, b in enumerate(t) if b == bloc)
        opp_above = n_own * n_opp - own_above
        tab[tuple(t)] = c ** own_above * (1 - c) ** opp_above
    tot = sum(tab.values(), F(0))
    if tot == 0:
        return None
    return {k: v / tot for k, v in tab.items()}


def check_models(ctx, case):
    import votekit.ballot_generator as bg
    from votekit.pref_interval import combine_preference_intervals, PreferenceInterval

    p = case["params"]
    blocs = list(p["bloc_voter_prop"])
    n = len(bp.all_cands(p))
    ext = any(v in (0.0, 1.0) for d in p["cohesion_parameters"].values() for v in d.values())
    zs = any(v == 0 for per in p["pref_intervals_by_bloc"].values() for d in per.values() for v in d.values())
    ctx.case(case, nontrivial=n >= 3 and (ext or zs or len(blocs) >= 2))
    kw = bp.build_kwargs(p)
    # combine_preference_intervals directly + pref_interval_by_bloc of the name models
    for b in blocs:
        o = observe(combine_preference_intervals, [kw["pref_intervals_by_bloc"][b][s] for s in blocs],
                    [p["cohesion_parameters"][b][s] for s in blocs])
        ctx.count("combined_checked")
        exp, zero = ref_combined(p, b)
        if not o.ok:
            ctx.fail(f"combine_preference_intervals raised {o.etype}", case, {"bloc": b, "msg": str(o.exc)[:200]})
            return
        ci = o.value
        if set(ci.interval) != set(exp) or set(ci.zero_cands) != zero or any(not close(ci.interval[c], exp[c]) for c in exp):
            ctx.fail("combine_preference_intervals: not cohesion share times interval (zero supports set aside)", case,
                     {"bloc": b, "got": dict(ci.interval), "exp": {c: float(v) for c, v in exp.items()}, "zero": sorted(ci.zero_cands)})
            return
        ctx.count("table_cells", len(exp))
    for model in ("name_PlackettLuce", "name_BradleyTerry", "name_Cumulative"):
        if model == "name_BradleyTerry" and n > 6:
            continue
        extra = {"num_votes": 2} if model == "name_Cumulative" else {}
        og = observe(bp.make, model, p, extra)
        if not og.ok:
            ctx.fail(f"{model} constructor raised {og.etype}", case, {"msg": str(og.exc)[:200]})
            return
        g = og.value
        for b in blocs:
            exp, zero = ref_combined(p, b)
            iv = g.pref_interval_by_bloc[b]
            if set(iv.interval) != set(exp) or set(iv.zero_cands) != zero or any(not close(iv.interval[c], exp[c]) for c in exp):
                ctx.fail(f"{model}.pref_interval_by_bloc differs from the combined interval", case, {"bloc": b})
                return
            if model == "name_BradleyTerry":
                ctx.count("name_bt_tables")
                if zero:
                    ctx.count("zero_support_tables")
                tab = g.pdfs_by_bloc[b]
                rt = ref_name_bt(exp)
                if set(tab) != set(rt):
                    ctx.fail("name_BradleyTerry.pdfs_by_bloc: keys are not exactly the rankings of the supported candidates", case,
                             {"bloc": b, "nkeys": len(tab), "exp": len(rt)})
                    return
                bad = [k for k in rt if not close(tab[k], rt[k])]
                if bad or not close(sum(tab.values()), 1):
                    ctx.fail("name_BradleyTerry.pdfs_by_bloc differs from prod x/(x+y) normalised", case,
                             {"bloc": b, "ranking": bad[:1], "got": [tab[k] for k in bad[:1]], "exp": [float(rt[k]) for k in bad[:1]]})
                    return
                ctx.count("table_cells", len(rt))
    if len(blocs) == 2 and n <= 7:
        og = observe(bp.make, "slate_BradleyTerry", p)
        if not og.ok:
            ctx.fail(f"slate_BradleyTerry constructor raised {og.etype}", case, {"msg": str(og.exc)[:200]})
            return
        g = og.value
        for i, b in enumerate(blocs):
            opp = blocs[(i + 1) % 2]
            rt = ref_slate_bt(p, b, opp)
            ctx.count("slate_bt_tables")
            if ext:
                ctx.count("extreme_cohesion_tables")
            tab = g.ballot_type_pdf[b]
            if rt is None:
                continue
            if set(tab) != set(rt):
                ctx.fail("slate_BradleyTerry.ballot_type_pdf: keys are not exactly the distinct slate orderings", case,
                         {"bloc": b, "keys": sorted(map(str, tab))[:5], "exp": sorted(map(str, rt))[:5]})
                return
            bad = [k for k in rt if not close(tab[k], rt[k])]
            if bad or not close(sum(tab.values()), 1):
                ctx.fail("slate_BradleyTerry.ballot_type_pdf differs from cohesion^(own above) (1-cohesion)^(other above) normalised",
                         case, {"bloc": b, "type": bad[:1], "got": [tab[k] for k in bad[:1]], "exp": [float(rt[k]) for k in bad[:1]]})
                return
            ctx.count("table_cells", len(rt))
    if len(blocs) == 1 and n <= 7:
        # one bloc: a single ballot type with one slot per supported candidate of the slate, probability 1
        og = observe(bp.make, "slate_BradleyTerry", p)
        if not og.ok:
            ctx.fail(f"slate_BradleyTerry (one bloc) constructor raised {og.etype}", case, {"msg": str(og.exc)[:200]})
            return
        b = blocs[0]
        n_own = sum(1 for v in p["pref_intervals_by_bloc"][b][b].values() if v > 0)
        tab = og.value.ballot_type_pdf[b]
        ctx.count("slate_bt_tables")
        ctx.count("slate_bt_one_bloc_tables")
        if set(tab) != {tuple([b] * n_own)} or not close(sum(tab.values()), 1):
            ctx.fail("slate_BradleyTerry.ballot_type_pdf (one bloc): not the single type with one slot per supported candidate", case,
                     {"keys": sorted(map(str, tab))[:4], "supported": n_own})
            return
    # the tables are definitions, not working storage: re-read after the generators have produced profiles they are the same
    rnd = ctx.sub_rnd(canon.jhash(case))
    for model in ("name_BradleyTerry", "slate_BradleyTerry", "name_PlackettLuce"):
        if (model == "name_BradleyTerry" and n > 6) or (model == "slate_BradleyTerry" and not (len(blocs) == 2 and n <= 7)):
            continue
        og = observe(bp.make, model, p)
        if not og.ok:
            continue
        g = og.value

        def read():
            out = {"iv": {b: (dict(iv.interval), sorted(iv.zero_cands)) for b, iv in getattr(g, "pref_interval_by_bloc", {}).items()},
                   "by": {b: {s: (dict(iv.interval), sorted(iv.zero_cands)) for s, iv in per.items()}
                          for b, per in g.pref_intervals_by_bloc.items()}}
            if model == "name_BradleyTerry":
                out["pdf"] = {b: dict(t) for b, t in g.pdfs_by_bloc.items()}
            if model == "slate_BradleyTerry":
                out["pdf"] = {b: dict(t) for b, t in g.ballot_type_pdf.items()}
            return out
        t0 = read()
        # a second generator with the same names and other numbers must not touch the first one's tables
        bp.make_decoy(model, p, None, use=rnd.random() < 0.5)
        ctx.count("decoy_generators_built")
        if read() != t0:
            ctx.fail(f"{model}: constructing another generator with the same bloc names changed this generator's tables", case, {})
            return
        for N in (rnd.choice([1, 2, 5]), rnd.choice([3, 8])):
            ou = observe(g.generate_profile, N)
            ctx.count("tables_reread_after_use")
            t1 = read()
            if t1 != t0:
                diff = [k for k in t0 if t0[k] != t1.get(k)]
                ctx.fail(f"{model}: the probability tables / intervals held by the generator changed when it generated a profile", case,
                         {"changed": diff, "generation_ok": ou.ok})
                return


def run(ctx):
    rnd = ctx.rnd
    for i in range(ctx.n(3000, 40000)):
        if ctx.expired():
            break
        k = rnd.randint(1, 7)
        d = {f"c{j}": rnd.choice([0.0, 1e-3, 0.05, 0.3, 1.0, 2.0, 10.0, 1e3, rnd.random()]) for j in range(k)}
        if all(v == 0 for v in d.values()):
            d["c0"] = 1.0
        ctx.guard("interval", check_interval, ctx, {"kind": "interval", "interval": d})
        if i % 2 == 0:
            nb = rnd.choice([1, 2, 2, 3])
            p = bp.gen_params(rnd, nblocs=nb, max_slate=3 if nb < 3 else 2)
            ctx.guard("models", check_models, ctx, {"kind": "models", "params": p})


def replay(ctx, case):
    (check_interval if case["kind"] == "interval" else check_models)(ctx, case)
