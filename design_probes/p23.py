import sys, random, csv, ast, os
sys.path[:0] = ['/repo/src', __import__('os').path.join(__import__('os').path.dirname(__import__('os').path.abspath(__file__)) if '__file__' in globals() else '.', 'shim')]
from fractions import Fraction as F
from votekit import Ballot, PreferenceProfile
from votekit.cvr_loaders import load_scottish, load_csv
fs = lambda *xs: tuple(frozenset(x if isinstance(x,(set,list,tuple)) else [x]) for x in xs)
# C11
for w in [1, 3, 0.1, 1/3, 0.333, F(1,3), F(1,10**7), 2.5, 1e-7, 10**12+0.5]:
    b=Ballot(ranking=fs('A'), weight=w, scores={'A':w,'B':0,'C':0.0})
    exp = w if isinstance(w,F) else F(w).limit_denominator()
    print(repr(w), b.weight, b.scores, b.weight==exp)
b=Ballot(ranking=fs('A'),weight=2)
for f,v in [('weight',3),('ranking',()),('scores',{}),('id','x'),('voter_set',set())]:
    try: setattr(b,f,v); print('ASSIGNED',f)
    except BaseException as e: print('frozen',f,type(e).__name__)
p=PreferenceProfile(ballots=(b,))
for f,v in [('ballots',()),('candidates',()),('total_ballot_wt',F(9)),('num_ballots',9),('candidates_cast',()),('df',None)]:
    try: setattr(p,f,v); print('ASSIGNED',f)
    except BaseException as e: print('frozen',f,type(e).__name__)
try: object.__setattr__(p,'num_ballots',5); print('object.__setattr__ bypass works (expected; not in scope)')
except BaseException as e: print(type(e).__name__)
# ballots list mutability
p=PreferenceProfile(ballots=[b,b]); print(type(p.ballots))
# zero weight ballot & candidates_cast
p=PreferenceProfile(ballots=(Ballot(ranking=fs('A'),weight=0),Ballot(ranking=fs('B'),weight=1)))
print(p.candidates, p.candidates_cast, p.total_ballot_wt, p.num_ballots)
# add
q=PreferenceProfile(ballots=(Ballot(ranking=fs('B'),weight=1),),candidates=('B','Z'))
print((p+q).candidates, [(x.ranking,x.weight) for x in (p+q).ballots])
# to_csv
os.makedirs('csvs',exist_ok=True)
pp=PreferenceProfile(ballots=(Ballot(ranking=fs('A',{'B','C, "x"'}),weight=F(3,2)),Ballot(scores={'A':2,'B':0.5},weight=2),Ballot(weight=1)))
pp.to_csv('csvs/out.csv'); print(open('csvs/out.csv').read())
for row in csv.DictReader(open('csvs/out.csv')): print(row['weight'], ast.literal_eval(row['ranking']), ast.literal_eval(row['scores']))
# scottish generated
rows=[[4,2,''],[3,1,2,''],['',''],[1,3,''],[2,4,3,2,1,''],[3,1,2,'']]+[['Candidate %d'%(i+1),n,pty,''] for i,(n,pty) in enumerate([('Ann B','P (P)'),('O\'Neil, C','Q'),('Dee','R'),('Eve','S')])]+[['Ward 7','']]
with open('csvs/scot.csv','w',newline='') as f: csv.writer(f).writerows(rows)
print(open('csvs/scot.csv').read())
r=load_scottish('csvs/scot.csv'); print(r[1:], [(b.ranking,b.weight) for b in r[0].ballots], r[0].candidates)
