"""C06 — pairwise comparison, dominating tiers and Condorcet consistency."""
import itertools
from fractions import Fraction as F

from .. import canon, cases, rules, rng, oracle, gen
from ..core import observe
from ..ref import pairwise, scoring

META = {
    "level": "exploration",
    "rule": ("cases = generated profiles (one in five with tied positions; partial ballots with <=4, sometimes 5, missing candidates, rational weights, zero-vote "
             "candidates, pairwise ties, Condorcet cycles of length 3..n, nested cycles) x m. Oracle: reference margins; "
             "brute-force tiers; the defining tier properties asserted on the returned tiers; Condorcet equivalences; "
             "DominatingSets = tier 0; CondoBorda = whole tiers then higher reference Borda. distinct = hash(case); "
             "non-trivial = >=2 tiers or a tier of size >=3 or a pairwise tie."),
    "assumptions": ["n <= 6 (quick) / 7 (thorough) because ballot_fill expands k! completions per short ballot"],
    "min_obs": {"all": {"graphs_checked": 500, "multi_tier": 200, "big_tier": 100, "pairwise_tie": 50,
                        "condorcet_winner": 100, "condoborda_straddle": 50, "dominating_checked": 200,
                        "profiles_with_tied_positions": 100, "ballots_five_short": 10, "graphs_with_ballot_length": 100,
                        "short_ballots_left_unfilled_by_ballot_length": 30,
                        "condoborda_straddling_tier_with_several_tied_borda_groups": 30}},
}


def gen_profile(rnd, maxn):
    t = rnd.random()
    if t < 0.4:
        spec, m = gen.hostile(rnd, "cycle", n=rnd.randint(3, maxn))
    elif t < 0.55:
        # engineered pairwise ties: a ranking and its reverse with equal weight
        n = rnd.randint(2, maxn)
        cs = gen.cands(rnd, n)
        w = gen.weight(rnd, "rat")
        r = rnd.sample(cs, n)
        bl = [canon.spec_ballot(r=[[c] for c in r], w=w), canon.spec_ballot(r=[[c] for c in r[::-1]], w=w)]
        bl += gen.ranked(rnd, cs=cs, nb=rnd.randint(0, 2))["ballots"]
        spec, m = canon.spec_profile(cs, bl), rnd.randint(1, n)
    elif t < 0.6:
        # one tier glued by pairwise ties, with two pairs of equal Borda score: (a,c,b,d) and (b,d,a,c) with equal weight give
        # Borda a = b > c = d while a~b, a~d, b~c, c~d tie head-to-head; optional candidates above / below everybody
        a, b, c, d, hi, lo = rnd.sample(gen.NAMES, 6)
        w = gen.weight(rnd, "int")
        top = [hi] if rnd.random() < 0.4 else []
        bot = [lo] if rnd.random() < 0.4 else []
        cs = rnd.sample([a, b, c, d] + top + bot, 4 + len(top) + len(bot))
        bl = [canon.spec_ballot(r=[[x] for x in top + [a, c, b, d] + bot], w=w),
              canon.spec_ballot(r=[[x] for x in top + [b, d, a, c] + bot], w=w)]
        rnd.shuffle(bl)
        spec, m = canon.spec_profile(cs, bl), rnd.randint(1, len(cs))
    elif t < 0.8:
        spec, m, _ = gen.any_ranked(rnd, maxn=maxn)
    else:
        # ballots with tied positions (neither tied candidate is ranked above the other)
        n = rnd.randint(2, maxn)
        spec, m = gen.ranked(rnd, n=n, ties=True, maxb=8), rnd.randint(1, n)
    # limit the number of missing candidates per ballot (k! blow-up): four, sometimes five (bullet votes among six)
    n = len(spec["cands"])
    limit = 5 if rnd.random() < 0.15 else 4
    for b in spec["ballots"]:
        have = [c for g in (b.get("r") or []) for c in g]
        miss = [c for c in spec["cands"] if c not in have]
        while len(miss) > limit:
            b["r"].append([miss.pop()])
    return spec, min(m, n)


def check_case(ctx, case):
    from votekit.graphs import PairwiseComparisonGraph
    import votekit.elections as el

    spec, m = case["profile"], case["m"]
    cands, ballots = canon.plain(spec)
    n = len(cands)
    prof = canon.build_profile(spec)
    mg = pairwise.margins(cands, ballots)
    ref_t = pairwise.tiers(cands, mg)
    has_tie = any(mg[a][b] == 0 for a in cands for b in cands if a != b)
    if any(len(g) > 1 for rk, _, _ in ballots for g in rk):
        ctx.count("profiles_with_tied_positions")
    if any(n - sum(len(g) for g in rk) >= 5 for rk, _, _ in ballots):
        ctx.count("ballots_five_short")
    Lb = case.get("ballot_length")
    if Lb is not None and any(Lb <= sum(len(g) for g in rk) < n for rk, _, _ in ballots):
        ctx.count("short_ballots_left_unfilled_by_ballot_length")
    nontriv = len(ref_t) >= 2 or any(len(t) >= 3 for t in ref_t) or has_tie
    ctx.case(case, nontrivial=nontriv)
    if len(ref_t) >= 2:
        ctx.count("multi_tier")
    if any(len(t) >= 3 for t in ref_t):
        ctx.count("big_tier")
    if has_tie:
        ctx.count("pairwise_tie")
    # the optional ballot_length (ballots at least that long are not filled) never changes a margin
    L = case.get("ballot_length")
    out = observe(PairwiseComparisonGraph, prof) if L is None else observe(PairwiseComparisonGraph, prof, ballot_length=L)
    if L is not None:
        ctx.count("graphs_with_ballot_length")
    if not out.ok:
        ctx.fail(f"PairwiseComparisonGraph raised {out.etype}", case, {"msg": str(out.exc)[:200]})
        return
    g = out.value
    ctx.count("graphs_checked")
    d = g.pairwise_dict
    for a, b in itertools.combinations(cands, 2):
        v = mg[a][b]
        if v > 0:
            good = d.get((a, b)) == v and (b, a) not in d
        elif v < 0:
            good = d.get((b, a)) == -v and (a, b) not in d
        else:
            good = d.get((a, b)) == 0 and d.get((b, a)) == 0
        if not good:
            ctx.fail("recorded head-to-head margin differs from the definition", case,
                     {"pair": [a, b], "margin": str(v), "dict_ab": str(d.get((a, b))), "dict_ba": str(d.get((b, a)))})
            return
    if set(k for k in d) - {(a, b) for a in cands for b in cands if a != b}:
        ctx.fail("pairwise_dict has keys that are not candidate pairs", case, {})
        return
    o2 = observe(g.dominating_tiers)
    if not o2.ok:
        ctx.fail(f"dominating_tiers raised {o2.etype}", case, {"msg": str(o2.exc)[:200]})
        return
    obs_t = [set(t) for t in o2.value]
    probs = pairwise.check_tier_properties(cands, mg, obs_t)
    if probs:
        ctx.fail("returned dominating tiers violate their defining properties: " + str(probs[0][0]), case,
                 {"tiers": [sorted(t) for t in obs_t], "problem": probs[0]})
        return
    if obs_t != ref_t:
        ctx.fail("dominating tiers differ from brute force", case,
                 {"tiers": [sorted(t) for t in obs_t], "ref": [sorted(t) for t in ref_t]})
        return
    cw = pairwise.condorcet_winner(cands, mg)
    # the queries must be pure: a generated sequence of tier / Condorcet queries on the SAME graph object, every
    # answer compared with the expectation each time it is asked
    qrnd = ctx.sub_rnd(canon.jhash(case))
    for qi in range(qrnd.randint(4, 9)):
        q = qrnd.choice(["tiers", "has", "get", "get", "dict"])
        ctx.count("graph_queries_in_sequence")
        if q == "tiers":
            oq = observe(g.dominating_tiers)
            good = oq.ok and [set(t) for t in oq.value] == ref_t
        elif q == "has":
            oq = observe(g.has_condorcet_winner)
            good = oq.ok and oq.value == (cw is not None)
        elif q == "get":
            oq = observe(g.get_condorcet_winner)
            good = (oq.ok and oq.value == cw) if cw is not None else ((not oq.ok) and oq.etype == "ValueError")
        else:
            good = dict(g.pairwise_dict) == dict(d)
            oq = None
        if not good:
            ctx.fail(f"pairwise graph: query '{q}' gives a wrong answer after earlier queries on the same object (queries are not pure)",
                     case, {"query_index": qi, "query": q, "got": repr(oq)[:200], "expected_tiers": [sorted(t) for t in ref_t], "cw": cw})
            return
    hcw = observe(g.has_condorcet_winner)
    if not hcw.ok or hcw.value != (cw is not None) or (len(ref_t[0]) == 1) != (cw is not None):
        ctx.fail("has_condorcet_winner disagrees with 'some candidate beats all others'", case, {"cw": cw, "got": repr(hcw)})
        return
    gcw = observe(g.get_condorcet_winner)
    if cw is not None:
        ctx.count("condorcet_winner")
        if not gcw.ok or gcw.value != cw:
            ctx.fail("get_condorcet_winner wrong", case, {"cw": cw, "got": repr(gcw)})
            return
    elif gcw.ok or gcw.etype != "ValueError":
        ctx.fail("get_condorcet_winner without a Condorcet winner did not raise ValueError", case, {"got": repr(gcw)})
        return
    # DominatingSets
    o3 = observe(el.DominatingSets, prof)
    if not o3.ok:
        ctx.fail(f"DominatingSets raised {o3.etype}", case, {"msg": str(o3.exc)[:200]})
        return
    e = o3.value
    ctx.count("dominating_checked")
    if [set(x) for x in e.get_elected() if x] != [ref_t[0]]:
        ctx.fail("DominatingSets does not elect exactly the top tier", case,
                 {"elected": canon.groups(e.get_elected()), "top": sorted(ref_t[0])})
        return
    if [set(x) for x in e.get_remaining() if x] != ref_t[1:]:
        ctx.fail("DominatingSets remaining is not the lower tiers in order", case,
                 {"remaining": canon.groups(e.get_remaining())})
        return
    # CondoBorda
    bs = scoring.borda(cands, ballots)
    # the straddling tier may hold SEVERAL groups of equal Borda score: every order the random fallback can draw for them is then
    # tried (a draw must not move a candidate of a lower group past one of a higher group)
    bs_ = scoring.borda(cands, ballots)
    tot_ = 0
    multi_groups = False
    for t_ in ref_t:
        if tot_ + len(t_) <= m:
            tot_ += len(t_)
            continue
        vals_ = [bs_[c] for c in t_]
        multi_groups = sum(1 for v in set(vals_) if vals_.count(v) >= 2) >= 2
        break
    if multi_groups:
        ctx.count("condoborda_straddling_tier_with_several_tied_borda_groups")
    for script, o4, r in rng.explore(lambda: el.CondoBorda(prof, m=m), max_runs=24 if multi_groups else 3):
        if not o4.ok:
            ctx.fail(f"CondoBorda raised {o4.etype}", case, {"msg": str(o4.exc)[:200], "script": script})
            return
        e = o4.value
        winners = [c for x in e.get_elected() for c in x]
        if len(winners) != m:
            ctx.fail("CondoBorda seat count", case, {"winners": winners, "script": script})
            return
        tot = 0
        for t in ref_t:
            if tot + len(t) <= m:
                if not t <= set(winners):
                    ctx.fail("CondoBorda skipped a whole tier that fits", case, {"winners": winners, "tier": sorted(t), "script": script})
                    return
                tot += len(t)
                if tot == m:
                    break
            else:
                ctx.count("condoborda_straddle")
                need = m - tot
                inside = [c for c in winners if c in t]
                outside = [c for c in winners if c not in t and not any(c in u for u in ref_t[:ref_t.index(t)])]
                if len(inside) != need or outside:
                    ctx.fail("CondoBorda did not fill the remaining seats from the straddling tier", case,
                             {"winners": winners, "tier": sorted(t), "script": script})
                    return
                losers = [c for c in t if c not in inside]
                if inside and losers and min(bs[c] for c in inside) < max(bs[c] for c in losers):
                    ctx.fail("CondoBorda chose a lower Borda score over a higher one inside the straddling tier", case,
                             {"inside": inside, "losers": losers, "borda": canon.scores_c(bs), "script": script})
                    return
                break
        # order: tiers in order
        pos = {c: i for i, t in enumerate(ref_t) for c in t}
        seq = [pos[c] for c in winners]
        if any(seq[i] > seq[i + 1] for i in range(len(seq) - 1)):
            ctx.fail("CondoBorda elected list not in tier order", case, {"winners": winners, "script": script})
            return


def run(ctx):
    maxn = 6 if ctx.quick else 7
    for i in range(ctx.n(5000, 60000)):
        if ctx.expired():
            break
        spec, m = gen_profile(ctx.rnd, maxn)
        case = {"profile": spec, "m": m}
        if ctx.rnd.random() < 0.3:
            case["ballot_length"] = ctx.rnd.randint(1, len(spec["cands"]) + 1)
        ctx.guard("check", check_case, ctx, case)


def replay(ctx, case):
    check_case(ctx, case)
