"""C07 — STV meets Droop proportionality for solid coalitions; IRV majority criterion."""
import itertools
from fractions import Fraction as F

from .. import canon, cases, rules, rng, oracle, gen

META = {
    "level": "exploration",
    "rule": ("cases = (STV droop, fractional|random transfer, simultaneous|one-by-one, tiebreak random; IRV) on untied "
             "profiles biased to solid coalitions worth exactly k*T and k*T-1; all 2^n-1 candidate subsets checked per "
             "finished run; tie-breaks scripted depth-first, random transfers seeded/scripted. distinct = hash(cfg, "
             "profile, script/seed); non-trivial = some proper subset S with k>=1 (a binding coalition constraint)."),
    "assumptions": ["a ballot supports coalition S only if its first |S| positions are exactly S (conservative reading)",
                    "runs ending in an allowed ValueError or in a C01 known finding are not judged here"],
    "min_obs": {"all": {"runs_checked": 500, "binding_constraints": 1000, "random_transfer_runs": 100,
                        "irv_majority_checks": 50, "exact_kT_coalitions": 30}},
}


def coalition_profile(rnd, maxn, integer):
    if rnd.random() < 0.55:
        # one case in five at an electorate of 10^9..10^18 voters (exact-quota coalitions, an outsider one vote short)
        return gen.hostile(rnd, "coalition", n=rnd.randint(2, maxn), integer=True, big=rnd.choice(gen.BIG_W) if rnd.random() < 0.2 else 1)
    spec, m, _ = gen.any_ranked(rnd, integer=integer, maxn=maxn)
    return spec, m


def check_case(ctx, case, max_runs):
    cfg, spec = case["cfg"], case["profile"]
    cands, ballots = canon.plain(spec)
    prof = canon.build_profile(spec)
    n = len(cands)
    bl = oracle.untied(ballots)
    israndom = cfg.get("transfer") == "random"
    script0 = case.get("script")
    if script0 is not None or israndom:
        runs = []
        seeds = [case["seed"]] if ("seed" in case and script0 is not None) else [case.get("seed", 0) + j for j in range(max_runs)]
        for sd in seeds:
            r = rng.Rng("script", script=script0 or [], policy="seeded", seed=sd)
            with r:
                out = rules.run(cfg, prof)[0]
            runs.append((script0 or [], out, r, sd))
    else:
        runs = [(s, o, r, 0) for s, o, r in rng.explore(lambda: rules.run(cfg, prof)[0], max_runs=max_runs, raw=True)]
    N = sum((w for _, w in bl), F(0))
    for script, out, r, sd in runs:
        c2 = dict(case)
        c2["script"], c2["seed"] = (script if not israndom else [d for d, _ in r.trace]), sd
        if not out.ok:
            ctx.count("constructor_raised_skipped")
            ctx.case({"cfg": cfg, "profile": spec, "script": c2["script"], "seed": sd})
            continue
        e = out.value
        T = e.threshold
        m = 1 if cfg["rule"] == "IRV" else cfg["m"]
        exp_T = (N / (m + 1)).__floor__() + 1
        if T != exp_T:
            ctx.fail("threshold is not the Droop quota", c2, {"T": str(T), "exp": str(exp_T)})
            continue
        el = {c for g in e.get_elected() for c in g}
        ctx.count("runs_checked")
        if israndom:
            ctx.count("random_transfer_runs")
        binding = 0
        bad = None
        for k in range(1, n + 1):
            for S in itertools.combinations(cands, k):
                Ss = set(S)
                W = sum((w for rk, w in bl if len(rk) >= k and set(rk[:k]) == Ss), F(0))
                kk = (W / T).__floor__() if T > 0 else 0
                need = min(kk, k, m)
                if need >= 1 and k < n:
                    binding += 1
                    if W == kk * T:
                        ctx.count("exact_kT_coalitions")
                if len(el & Ss) < need:
                    bad = (sorted(S), str(W), kk, need, sorted(el))
                    break
            if bad:
                break
        ctx.count("binding_constraints", binding)
        ctx.case({"cfg": cfg, "profile": spec, "script": c2["script"], "seed": sd}, nontrivial=binding > 0)
        if bad:
            ctx.fail("Droop proportionality violated: coalition owed more seats than it got", c2,
                     {"S": bad[0], "weight": bad[1], "quotas": bad[2], "owed": bad[3], "elected": bad[4], "T": str(T),
                      "outcome": canon.outcome_c(e)})
        if cfg["rule"] == "IRV":
            fp = {}
            for rk, w in bl:
                fp[rk[0]] = fp.get(rk[0], F(0)) + w
            maj = [c for c, v in fp.items() if v >= T]
            if maj:
                ctx.count("irv_majority_checks")
                if not set(maj) <= el:
                    ctx.fail("IRV majority criterion violated", c2, {"majority": maj, "elected": sorted(el)})


def mixed_pile_case(rnd):
    """Random transfer from a pile that mixes coalition and outside continuations: S = {a, b} holds exactly two quotas, all
    on ballots led by a; a's surplus must pass enough of them on to b.  Which ballots move is random, so the case is run
    under many seeds (a draw *with* replacement can over-draw the small outside part of the pile)."""
    a, b, c, d = rnd.sample(gen.NAMES, 4)
    T = rnd.randint(6, 14)
    rest = rnd.randint(T - 3, T - 1)
    y = rnd.randint(1, max(1, rest - 1))
    z = rest - y
    B = lambda r, w: canon.spec_ballot(r=[[x] for x in r], w=w)  # noqa
    bl = [B([a, b, c, d], 2 * T), B([a, c, d, b], y)] + ([B([c, d, b, a], z)] if z > 0 else [])
    rnd.shuffle(bl)
    spec = canon.spec_profile(rnd.sample([a, b, c, d], 4), bl)
    cfg = {"rule": "STV", "m": 2, "quota": "droop", "sim": rnd.random() < 0.5, "transfer": "random", "tiebreak": "random"}
    return {"cfg": cfg, "profile": spec, "seed": rnd.randrange(10 ** 6)}


def tied_cowinners_case(rnd):
    """Two candidates of a solid coalition {x, y, z} cross the quota in the same round with EQUAL tallies, each with a
    surplus whose ballots continue to the third member z; the coalition holds exactly three quotas, so z is owed the third
    seat and gets it only if both surpluses arrive (a surplus lost to a shared tie set leaves z short)."""
    x, y, z, b = rnd.sample(gen.NAMES, 4)
    T = rnd.randint(3, 9)
    a = (3 * T + 1) // 2          # 2a >= 3T: the coalition is worth three quotas
    N = 4 * T - 1                 # floor(N / 4) + 1 == T with m = 3
    c = N - 2 * a                 # the outsider's bullet votes, below the quota
    B = lambda r, w: canon.spec_ballot(r=[[q] for q in r], w=w)  # noqa
    bl = [B([x, z, y], a), B([y, z, x], a)] + ([B([b], c)] if c > 0 else [])
    rnd.shuffle(bl)
    spec = canon.spec_profile(rnd.sample([x, y, z, b], 4), bl)
    cfg = {"rule": "STV", "m": 3, "quota": "droop", "sim": True, "transfer": rnd.choice(["fractional", "random"]),
           "tiebreak": "random"}
    return {"cfg": cfg, "profile": spec, "seed": rnd.randrange(10 ** 6)}


def run(ctx):
    maxn = 6 if ctx.quick else 7
    max_runs = 3 if ctx.quick else 10
    for i in range(ctx.n(4500, 90000)):
        if ctx.expired():
            break
        integer = ctx.rnd.random() < 0.6
        spec, m = coalition_profile(ctx.rnd, maxn, integer)
        n = len(spec["cands"])
        allint = all(canon.pf(b["w"]).denominator == 1 and canon.pf(b["w"]) <= 10 ** 5 for b in spec["ballots"])  # random transfer works voter by voter
        if ctx.rnd.random() < 0.15:
            cfg = {"rule": "IRV", "quota": "droop", "tiebreak": "random"}
        else:
            cfg = {"rule": "STV", "m": min(m, n), "quota": "droop", "sim": ctx.rnd.random() < 0.5,
                   "transfer": "random" if (allint and ctx.rnd.random() < 0.5) else "fractional",
                   "tiebreak": ctx.rnd.choice(["random", "random", "borda", "first_place"])}
        ctx.guard("check", check_case, ctx, {"cfg": cfg, "profile": spec, "seed": ctx.rnd.randrange(10 ** 6)}, max_runs)
        if i % 40 == 7:
            ctx.count("tied_cowinner_cases")
            ctx.guard("check", check_case, ctx, tied_cowinners_case(ctx.rnd), 4)
        if i % 60 == 5:
            ctx.count("mixed_pile_cases")
            ctx.guard("check", check_case, ctx, mixed_pile_case(ctx.rnd), 40 if ctx.quick else 200)
        if i % 3 == 0:
            sib = cases.sibling_weights_permuted(ctx.rnd, spec)
            if sib is not None:
                ctx.count("sibling_profiles")
                ctx.guard("check", check_case, ctx, {"cfg": cfg, "profile": sib, "seed": ctx.rnd.randrange(10 ** 6),
                                                     "prelude": {"cfg": cfg, "profile": spec, "seed": 0}}, max_runs)


def replay(ctx, case):
    check_case(ctx, case, 1)
