"""C11 — ballot and profile values are exact, immutable and condense/compare by content."""
import itertools
from fractions import Fraction as F

from .. import canon, gen
from ..core import observe

META = {
    "level": "exploration",
    "rule": ("ballot cases = Ballot constructions with int/float/Fraction weights and scores (incl. zero scores, values that "
             "round to zero, denominators around 10^6), every field re-assigned afterwards; profile cases = profiles of up "
             "to 5 ballots mixing ranked, scored, ranked+scored and empty ballots built in several (thorough: all) orders: "
             "derived fields recomputed, condense preserves the (ranking, scores) content multiset / distinct / idempotent / "
             "order independent, == iff content multisets equal (both operand orders), + adds them. distinct = hash(case); "
             "non-trivial = >=2 ballots sharing a ranking with different scores-presence, or a float needing rounding."),
    "assumptions": ["equality is not exercised with zero-weight ballots (the statement leaves 'weight 0' vs 'absent' open)"],
    "min_obs": {"all": {"ballots_built": 1000, "assign_attempts": 2000, "profiles_built": 500, "condense_checks": 500,
                        "eq_pairs": 500, "add_checks": 200, "shared_ranking_mixed_scores": 100, "dup_cands_rejected": 3}},
}

WEIGHTS = [1, 2, 3, 10 ** 6, F(1, 3), F(7, 3), F(1, 10 ** 6), F(999999, 10 ** 6), F(10 ** 6 - 1, 10 ** 6 + 0 - 1), 0.5, 0.1,
           1 / 3, 0.333, 2.5, 1e-3, 123456.789, 1e6 + 0.5, F(5, 2), 0.25, 7,
           10 ** 18, 2 ** 53 + 1, 2 ** 64 + 3, 1e18, 2.0 ** 53 + 2, 1e9 + 0.5, 123456789.125, F(10 ** 18 + 1, 1),
           0, 0.0, F(0)]  # zero-weight ballots: counted as ballots, their candidates are not "cast"
SCORES = [0, 0.0, 1, 2, 0.5, 0.1, 1 / 3, F(1, 3), F(0), F(7, 2), 1e-7, F(1, 10 ** 7), 3.75, F(1, 10 ** 6),
          10 ** 9, 2 ** 53 + 1, 1e15, 1e9 + 0.25]


def exp_num(x):
    if isinstance(x, F):
        return x
    return F(x).limit_denominator(10 ** 6)


def rnd_num(rnd, menu):
    t = rnd.random()
    if t < 0.6:
        return rnd.choice(menu)
    if t < 0.75:
        return rnd.randint(1, 10 ** 6) / 10 ** rnd.randint(1, 6)  # float needing a denominator up to 10^6
    if t < 0.9:
        return rnd.random() * rnd.choice([1, 10, 1000])  # float that must be rounded to the closest such fraction
    return F(rnd.randint(1, 10 ** 6), rnd.randint(1, 10 ** 6))


def gen_ballot_spec(rnd, cs):
    kind = rnd.choice(["r", "r", "s", "rs", "none"])
    d = {"w": rnd_num(rnd, WEIGHTS)}
    if "r" in kind:
        d["r"] = gen.ranking(rnd, cs, ties=rnd.random() < 0.4)
    if "s" in kind:
        d["s"] = {c: rnd_num(rnd, SCORES) for c in rnd.sample(cs, rnd.randint(1, len(cs)))}
    if rnd.random() < 0.2:
        d["id"] = "id%d" % rnd.randint(0, 5)
    if rnd.random() < 0.2:
        d["vs"] = sorted(rnd.sample(["v1", "v2", "v3"], rnd.randint(1, 2)))
    if rnd.random() < 0.15:
        d["np"] = True  # weight and scores handed over as numpy scalars
    return d


def enc(d):
    """JSON-able case form (floats and Fractions tagged)"""
    out = {"w": canon.fs(d["w"])}
    if "r" in d:
        out["r"] = d["r"]
    if "s" in d:
        out["s"] = {c: canon.fs(v) for c, v in d["s"].items()}
    for k in ("id", "vs", "np"):
        if k in d:
            out[k] = d[k]
    return out


def dec(e):
    d = {"w": canon.pf(e["w"])}
    if isinstance(d["w"], F) and d["w"].denominator == 1 and not e["w"].startswith("f"):
        d["w"] = int(d["w"]) if "/" not in e["w"] else d["w"]
    if "r" in e:
        d["r"] = e["r"]
    if "s" in e:
        d["s"] = {c: canon.pf(v) for c, v in e["s"].items()}
    for k in ("id", "vs", "np"):
        if k in e:
            d[k] = e[k]
    return d


def as_np(x):
    """the same float as a numpy float64 (a subclass of float, hence inside the statement's 'int/float/Fraction'; numpy
    integers are not ints and stay outside: Fraction(np.int64) keeps a numpy numerator, whose arithmetic can overflow)"""
    import numpy as np
    if isinstance(x, float):
        return np.float64(x)
    return x


def mk(d):
    from votekit import Ballot

    if d.get("np"):
        d = dict(d, w=as_np(d["w"]), **({"s": {c: as_np(v) for c, v in d["s"].items()}} if "s" in d else {}))
    kw = {"weight": d["w"]}
    if "r" in d:
        kw["ranking"] = tuple(frozenset(g) for g in d["r"])
    if "s" in d:
        kw["scores"] = dict(d["s"])
    if "id" in d:
        kw["id"] = d["id"]
    if "vs" in d:
        kw["voter_set"] = set(d["vs"])
    return Ballot(**kw)


def check_ballot(ctx, case):
    d = dec(case["ballot"])
    o = observe(mk, d)
    ctx.count("ballots_built")
    rounding = isinstance(d["w"], float) or any(isinstance(v, float) for v in d.get("s", {}).values())
    ctx.case(case, nontrivial=rounding)
    if not o.ok:
        ctx.fail(f"valid Ballot construction raised {o.etype}", case, {"msg": str(o.exc)[:200]})
        return
    b = o.value
    ew = exp_num(d["w"])
    if not isinstance(b.weight, F) or b.weight != ew:
        ctx.fail("ballot weight is not the exact rational the statement prescribes", case, {"got": repr(b.weight), "exp": str(ew)})
        return
    if "s" in d:
        es = {c: exp_num(v) for c, v in d["s"].items()}
        es = {c: v for c, v in es.items() if v != 0}
        # a Fraction with a denominator above 10^6 is outside the statement: unchanged or rounded are both accepted
        es2 = {c: F(v).limit_denominator(10 ** 6) for c, v in d["s"].items()}
        es2 = {c: v for c, v in es2.items() if v != 0}
        got = dict(b.scores) if b.scores else {}
        if (got != es and got != es2) or any(not isinstance(v, F) for v in got.values()):
            zero = [c for c, v in got.items() if v == 0]
            ctx.fail("ballot scores are not the exact non-zero rationals the statement prescribes"
                     + (" (a zero score is kept)" if zero else ""), case,
                     {"got": {c: str(v) for c, v in got.items()}, "exp": {c: str(v) for c, v in es.items()}},
                     mech=None)
            return
    # frozenness
    before = (b.ranking, b.weight, b.voter_set, b.id, b.scores)
    for f, v in [("weight", F(99)), ("ranking", (frozenset({"zz"}),)), ("scores", {"zz": F(1)}), ("id", "other"),
                 ("voter_set", {"zz"})]:
        o2 = observe(setattr, b, f, v)
        ctx.count("assign_attempts")
        after = (b.ranking, b.weight, b.voter_set, b.id, b.scores)
        if o2.ok or after != before:
            ctx.fail(f"Ballot.{f} could be reassigned after construction", case, {"field": f})
            return
    o3 = observe(delattr, b, "weight")
    if o3.ok:
        ctx.fail("Ballot.weight could be deleted", case, {})


def content_ms(ballots):
    return {k: v for k, v in canon.multiset(ballots).items()}


def implied(ballots):
    cast = set()
    for b in ballots:
        if b.weight > 0:
            if b.ranking:
                for g in b.ranking:
                    cast |= set(g)
            if b.scores:
                cast |= set(b.scores)
    return len(ballots), sum((b.weight for b in ballots), F(0)), cast


def derived_ok(q):
    """the derived fields of ANY profile object (constructed, condensed, summed) equal what its own ballots imply"""
    n, tot, cast = implied(q.ballots)
    return q.num_ballots == n and q.total_ballot_wt == tot and set(q.candidates_cast) == cast and len(q.candidates_cast) == len(cast)


def snap(ballots):
    return [(b.ranking, dict(b.scores) if b.scores else None, b.weight, b.id, set(b.voter_set) if b.voter_set else None) for b in ballots]


def check_profile(ctx, case, all_orders):
    from votekit import PreferenceProfile

    specs = [dec(e) for e in case["ballots"]]
    ballots = [mk(d) for d in specs]
    cs = case["cands"]
    rnd = ctx.sub_rnd(canon.jhash(case))
    mixed = any(a.ranking == b.ranking and bool(a.scores) != bool(b.scores) for a, b in itertools.combinations(ballots, 2))
    if mixed:
        ctx.count("shared_ranking_mixed_scores")
    ctx.case(case, nontrivial=mixed)
    o = observe(PreferenceProfile, ballots=tuple(ballots), candidates=tuple(cs))
    ctx.count("profiles_built")
    if not o.ok:
        ctx.fail(f"valid PreferenceProfile construction raised {o.etype}", case, {"msg": str(o.exc)[:300]})
        return
    p = o.value
    snap0 = snap(ballots)
    # derived fields
    cast = set()
    for b in ballots:
        if b.weight > 0:
            if b.ranking:
                for g in b.ranking:
                    cast |= set(g)
            if b.scores:
                cast |= set(b.scores)
    if p.num_ballots != len(ballots) or p.total_ballot_wt != sum((b.weight for b in ballots), F(0)) or set(p.candidates_cast) != cast \
            or len(p.candidates_cast) != len(cast):
        ctx.fail("profile's ballot count / total weight / cast-candidate set differ from what its ballots imply", case,
                 {"num": p.num_ballots, "tot": str(p.total_ballot_wt), "cast": sorted(map(str, p.candidates_cast))})
        return
    if tuple(p.candidates) != tuple(cs):
        ctx.fail("profile.candidates differs from the given list", case, {})
        return
    # the derived fields are not the caller's to set: handed wrong values, the constructor either refuses or recomputes them
    wrong = rnd.choice([{"num_ballots": 99}, {"num_ballots": 0}, {"total_ballot_wt": F(5, 3)}, {"total_ballot_wt": F(0)},
                        {"candidates_cast": ("zz",)}, {"candidates_cast": ()},
                        {"num_ballots": len(ballots) + 1, "total_ballot_wt": F(1), "candidates_cast": tuple(cs)}])
    ow = observe(lambda: PreferenceProfile(ballots=tuple(ballots), candidates=tuple(cs), **wrong))
    ctx.count("derived_fields_handed_in")
    if ow.ok and not derived_ok(ow.value):
        ctx.fail("a profile constructed with derived fields handed in reports them instead of what its ballots imply", case,
                 {"handed_in": {k: str(v) for k, v in wrong.items()}, "num": ow.value.num_ballots, "tot": str(ow.value.total_ballot_wt),
                  "cast": sorted(map(str, ow.value.candidates_cast))})
        return
    if not ow.ok and ow.etype not in ("ValueError", "TypeError", "ValidationError"):
        ctx.fail(f"constructing a profile with derived fields handed in raised {ow.etype}", case, {"msg": str(ow.exc)[:200]})
        return
    for f, v in [("ballots", ()), ("candidates", ("zz",)), ("total_ballot_wt", F(9)), ("num_ballots", 99),
                 ("candidates_cast", ("zz",)), ("df", None)]:
        before = (p.ballots, p.candidates, p.total_ballot_wt, p.num_ballots, p.candidates_cast)
        o2 = observe(setattr, p, f, v)
        ctx.count("assign_attempts")
        if o2.ok or (p.ballots, p.candidates, p.total_ballot_wt, p.num_ballots, p.candidates_cast) != before:
            ctx.fail(f"PreferenceProfile.{f} could be reassigned after construction", case, {"field": f})
            return
    # condense
    M = content_ms(ballots)
    Mnz = {k: v for k, v in M.items()}
    orders = list(itertools.permutations(range(len(ballots)))) if all_orders and len(ballots) <= 5 else \
        [tuple(range(len(ballots))), tuple(reversed(range(len(ballots))))] + [tuple(rnd.sample(range(len(ballots)), len(ballots))) for _ in range(3)]
    first = None
    for od in orders:
        q = PreferenceProfile(ballots=tuple(ballots[i] for i in od), candidates=tuple(cs))
        oc = observe(q.condense_ballots)
        ctx.count("condense_checks")
        if not oc.ok:
            ctx.fail(f"condense_ballots raised {oc.etype}", case, {"order": list(od), "msg": str(oc.exc)[:200]})
            return
        c = oc.value
        Mc = content_ms(c.ballots)
        if Mc != Mnz:
            ctx.fail("condensing changed the total weight of some (ranking, scores) content", case,
                     {"order": list(od), "before": canon.multiset_c(M, False), "after": canon.multiset_c(Mc, False)})
            return
        if len(c.ballots) != len(Mc):
            ctx.fail("condensed profile has two ballots with the same content", case, {"order": list(od)})
            return
        cc = c.condense_ballots()
        if content_ms(cc.ballots) != Mc or len(cc.ballots) != len(c.ballots):
            ctx.fail("condensing is not idempotent", case, {"order": list(od)})
            return
        if tuple(c.candidates) != tuple(cs):
            ctx.fail("condensing changed the candidate list", case, {})
            return
        if not derived_ok(c) or not derived_ok(cc):
            ctx.fail("condensed profile's ballot count / total weight / cast-candidate set differ from what its ballots imply", case,
                     {"order": list(od), "num": c.num_ballots, "tot": str(c.total_ballot_wt), "cast": sorted(map(str, c.candidates_cast))})
            return
        # the same object condensed a second time gives the same content, and is itself left as it was
        c2 = q.condense_ballots()
        ctx.count("same_object_condensed_twice")
        if content_ms(c2.ballots) != Mc or len(c2.ballots) != len(Mc) or content_ms(q.ballots) != M or len(q.ballots) != len(ballots):
            ctx.fail("condensing the same profile object a second time gives another result, or changed the object", case,
                     {"order": list(od)})
            return
    # equality: content equal <=> ==   (no zero-weight ballots involved)
    if all(b.weight > 0 for b in ballots):
        variants = []
        od = tuple(rnd.sample(range(len(ballots)), len(ballots)))
        variants.append(("reordered", [ballots[i] for i in od], True))
        if ballots:
            i = rnd.randrange(len(ballots))
            b = ballots[i]
            from votekit import Ballot

            half = [Ballot(ranking=b.ranking, scores=b.scores, weight=b.weight / 2)] * 2
            variants.append(("split", ballots[:i] + half[:1] + ballots[i + 1:] + half[1:], True))
            variants.append(("reweighted", ballots[:i] + [Ballot(ranking=b.ranking, scores=b.scores, weight=b.weight + 1)] + ballots[i + 1:], False))
            if b.scores:
                variants.append(("scores dropped", ballots[:i] + [Ballot(ranking=b.ranking, weight=b.weight)] + ballots[i + 1:],
                                 content_ms(ballots[:i] + [Ballot(ranking=b.ranking, weight=b.weight)] + ballots[i + 1:]) == M))
            elif b.ranking:
                nb = Ballot(ranking=b.ranking, scores={cs[0]: 1}, weight=b.weight)
                variants.append(("scores added", ballots[:i] + [nb] + ballots[i + 1:], content_ms(ballots[:i] + [nb] + ballots[i + 1:]) == M))
            variants.append(("ballot removed", ballots[:i] + ballots[i + 1:], content_ms(ballots[:i] + ballots[i + 1:]) == M))
            # same total weight per ranking and per score assignment, but the scores sit on other rankings: two ballots with
            # different rankings and different scores get equal weight in BOTH profiles; in the second one their scores are
            # swapped (only the joint contents tell the two profiles apart)
            pairs = [(a, c) for a in range(len(ballots)) for c in range(a + 1, len(ballots))
                     if ballots[a].ranking and ballots[c].ranking and ballots[a].ranking != ballots[c].ranking
                     and (ballots[a].scores or {}) != (ballots[c].scores or {})]
            if pairs:
                a, c = rnd.choice(pairs)
                w = ballots[a].weight
                ba, bc = ballots[a], ballots[c]
                rest = [x for j, x in enumerate(ballots) if j not in (a, c)]
                base2 = rest + [Ballot(ranking=ba.ranking, scores=ba.scores, weight=w), Ballot(ranking=bc.ranking, scores=bc.scores, weight=w)]
                swap2 = rest + [Ballot(ranking=ba.ranking, scores=bc.scores, weight=w), Ballot(ranking=bc.ranking, scores=ba.scores, weight=w)]
                ctx.count("eq_same_marginals_other_joint_pairs")
                p2a = PreferenceProfile(ballots=tuple(base2), candidates=tuple(cs))
                p2b = PreferenceProfile(ballots=tuple(swap2), candidates=tuple(cs))
                want = content_ms(base2) == content_ms(swap2)
                for u, v_, lab in ((p2a, p2b, "p==q"), (p2b, p2a, "q==p")):
                    oe = observe(lambda: u == v_)
                    ctx.count("eq_pairs")
                    if not oe.ok or bool(oe.value) != want:
                        ctx.fail(f"profile equality is not content equality (scores swapped between two rankings of equal weight, {lab})",
                                 case, {"got": repr(oe)[:100], "expected": want, "a": canon.multiset_c(content_ms(base2), False),
                                        "b": canon.multiset_c(content_ms(swap2), False)})
                        return
        for name, bl2, exp_eq in variants:
            q = PreferenceProfile(ballots=tuple(bl2), candidates=tuple(cs))
            exp_eq = content_ms(bl2) == M
            for a, b_, lab in ((p, q, "p==q"), (q, p, "q==p")):
                oe = observe(lambda: a == b_)
                ctx.count("eq_pairs")
                if not oe.ok or bool(oe.value) != exp_eq:
                    ctx.fail(f"profile equality is not content equality ({name}, {lab})", case,
                             {"variant": name, "got": repr(oe)[:100], "expected": exp_eq,
                              "other": canon.multiset_c(content_ms(bl2), False)})
                    return
    # addition
    k = rnd.randint(0, len(ballots))
    p1 = PreferenceProfile(ballots=tuple(ballots[:k]))
    p2 = PreferenceProfile(ballots=tuple(ballots[k:]))
    oa = observe(lambda: p1 + p2)
    ctx.count("add_checks")
    if not oa.ok:
        ctx.fail(f"profile addition raised {oa.etype}", case, {"msg": str(oa.exc)[:200]})
        return
    if content_ms(oa.value.ballots) != M:
        ctx.fail("adding profiles does not add the content weights", case, {})
        return
    if not derived_ok(oa.value):
        ctx.fail("summed profile's ballot count / total weight / cast-candidate set differ from what its ballots imply", case, {})
        return
    # the same operands again, in the other order, and a profile added to itself
    ob = observe(lambda: p2 + p1)
    od2 = observe(lambda: p + p)
    ctx.count("add_checks", 2)
    if not ob.ok or content_ms(ob.value.ballots) != M:
        ctx.fail("adding profiles does not add the content weights (operands swapped, second addition of the same objects)", case, {})
        return
    M2 = {k: 2 * v for k, v in M.items()}
    if not od2.ok or content_ms(od2.value.ballots) != M2 or not derived_ok(od2.value):
        ctx.fail("a profile added to itself does not carry twice the content weights", case, {})
        return
    if all(b.weight > 0 for b in ballots) and ballots:
        oe = observe(lambda: (p == p, od2.value == p, oa.value == p, oa.value.condense_ballots() == p.condense_ballots()))
        ctx.count("eq_pairs", 4)
        if not oe.ok or tuple(map(bool, oe.value)) != (True, False, True, True):
            ctx.fail("profile equality is not content equality (self, doubled, re-assembled sum, condensed forms)", case,
                     {"got": repr(oe)[:120], "expected": "(True, False, True, True)"})
            return
    # nothing above may have changed the operands: same ballot objects with the same content, same derived fields
    if snap(ballots) != snap0 or len(p.ballots) != len(ballots) or any(a is not b for a, b in zip(p.ballots, ballots)) and snap(p.ballots) != snap0 \
            or not derived_ok(p) or tuple(p.candidates) != tuple(cs):
        ctx.fail("condense / == / + changed their operands (ballots or profile fields differ afterwards)", case, {})


def check_writein(ctx, case):
    """candidates= given explicitly and NOT covering every name on the ballots (write-ins): if the profile is accepted, its
    derived fields still equal what its ballots imply, before and after condensing"""
    from votekit import PreferenceProfile

    ballots = [mk(dec(e)) for e in case["ballots"]]
    form = case.get("form", "tuple")
    cs = case["listed"]
    arg = tuple(cs) if form == "tuple" else list(cs)
    o = observe(PreferenceProfile, ballots=tuple(ballots), candidates=arg)
    ctx.count("writein_profiles")
    ctx.case(case, nontrivial=True)
    if not o.ok:
        ctx.count("writein_rejected")  # rejecting names outside the list is not ruled out by the statement
        return
    p = o.value
    if not derived_ok(p):
        ctx.fail("profile with an explicit candidate list: ballot count / total weight / cast-candidate set differ from what its "
                 "ballots imply (a name on a ballot but not in the list)", case,
                 {"cast": sorted(map(str, p.candidates_cast)), "implied": sorted(map(str, implied(ballots)[2]))})
        return
    oc = observe(p.condense_ballots)
    if oc.ok and not derived_ok(oc.value):
        ctx.fail("condensed profile with an explicit candidate list: derived fields differ from what its ballots imply", case, {})


def dup_cands(ctx):
    from votekit import PreferenceProfile

    for cs in (["A", "A"], ["A", "B", "A"], ["x", "y", "z", "y"]):
        o = observe(PreferenceProfile, ballots=(), candidates=tuple(cs))
        ctx.count("dup_cands_rejected")
        ctx.case({"dup": cs})
        if o.ok or not isinstance(o.exc, ValueError):
            ctx.fail("candidate list with duplicates not rejected with ValueError", {"dup": cs}, {"got": repr(o)[:100]})


def run(ctx):
    dup_cands(ctx)
    for i in range(ctx.n(9000, 150000)):
        if ctx.expired(0.4):
            break
        cs = gen.cands(ctx.rnd, ctx.rnd.randint(1, 5))
        ctx.guard("ballot", check_ballot, ctx, {"kind": "ballot", "ballot": enc(gen_ballot_spec(ctx.rnd, cs))})
    for i in range(ctx.n(2500, 30000)):
        if ctx.expired():
            break
        cs = gen.cands(ctx.rnd, ctx.rnd.randint(1, 4))
        nb = ctx.rnd.randint(0, 5)
        bl = [gen_ballot_spec(ctx.rnd, cs) for _ in range(nb)]
        if i % 40 == 7:
            # beyond hand size: 9-12 candidates, 40-80 ballots repeating a dozen contents in random order
            cs = ctx.rnd.sample(gen.BIGNAMES, ctx.rnd.randint(9, 12))
            base = [gen_ballot_spec(ctx.rnd, cs) for _ in range(ctx.rnd.randint(6, 14))]
            bl = [dict(ctx.rnd.choice(base), w=rnd_num(ctx.rnd, WEIGHTS)) for _ in range(ctx.rnd.randint(40, 80))]
            nb = len(bl)
            ctx.count("large_profiles")
        for b in bl:
            if "s" in b:
                b["s"] = {c: v for c, v in b["s"].items() if exp_num(v) != 0 or v == 0}
        if nb >= 2 and ctx.rnd.random() < 0.6:
            # the same ranking once with and once without scores
            r = gen.ranking(ctx.rnd, cs)
            bl[0] = {"w": ctx.rnd.choice([1, 2, F(1, 2)]), "r": r}
            bl[1] = {"w": ctx.rnd.choice([1, 3]), "r": r, "s": {cs[0]: ctx.rnd.choice([1, 2, 0.5])}}
            if nb >= 3 and ctx.rnd.random() < 0.5:
                bl[2] = {"w": 1, "r": r, "s": {cs[0]: 5}}
            ctx.rnd.shuffle(bl)
        if nb >= 2 and len(cs) >= 2 and ctx.rnd.random() < 0.35:
            # the same (ranking, scores) content written with the score dictionary in two different key orders
            ks = ctx.rnd.sample(cs, ctx.rnd.randint(2, len(cs)))
            sc = {c: ctx.rnd.choice([1, 2, 3, 0.5, F(7, 2)]) for c in ks}
            r = gen.ranking(ctx.rnd, cs) if ctx.rnd.random() < 0.5 else None
            b1 = {"w": ctx.rnd.choice([1, 2, F(1, 2)]), "s": dict(sc)}
            b2 = {"w": ctx.rnd.choice([1, 3]), "s": {c: sc[c] for c in reversed(ks)}}
            if r is not None:
                b1["r"], b2["r"] = r, r
            bl[ctx.rnd.randrange(len(bl))] = b1
            bl.insert(ctx.rnd.randrange(len(bl) + 1), b2)
            ctx.count("same_content_different_key_order")
        ctx.guard("profile", check_profile, ctx, {"kind": "profile", "cands": cs, "ballots": [enc(b) for b in bl]},
                  not ctx.quick)
        voted = sorted({c for b in bl for g in b.get("r", []) for c in g} | {c for b in bl for c in b.get("s", {})})
        if i % 3 == 0 and len(voted) >= 2:
            listed = [c for c in cs if c != ctx.rnd.choice(voted)] + (["unvoted"] if ctx.rnd.random() < 0.5 else [])
            ctx.guard("writein", check_writein, ctx, {"kind": "writein", "listed": listed, "form": ctx.rnd.choice(["tuple", "list"]),
                                                      "ballots": [enc(b) for b in bl]})


def replay(ctx, case):
    if case.get("kind") == "ballot":
        check_ballot(ctx, case)
    elif case.get("kind") == "profile":
        check_profile(ctx, case, True)
    elif case.get("kind") == "writein":
        check_writein(ctx, case)
    else:
        dup_cands(ctx)
