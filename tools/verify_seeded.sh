#!/bin/sh
# tools/verify_seeded.sh <ID> <dir containing patch.diff and demo.py> [checks...]
# Confirms a seeded change in a scratch worktree of /repo HEAD: demo passes on the clean tree, fails on the patched
# tree, the repository's own tests still pass on the patched tree; then runs the given checks (default: the target
# property) against the patched tree via VK_REPO_SRC. Removes the worktree afterwards.
ID=$1; SRC=$2; shift 2
CHECKS=${*:-$ID}
W=/tmp/sv_$ID.$$
git -C /repo worktree add -q --detach "$W" HEAD || exit 2
export PYTHONDONTWRITEBYTECODE=1
run_demo() { (cd "$W" && PYTHONPATH="$W/src:/tmp/otshim" timeout 600 /venv/bin/python "$SRC/demo.py" >/dev/null 2>&1; echo $?); }
echo "demo on clean tree: exit $(run_demo) (want 0)"
git -C "$W" apply "$SRC/patch.diff" || { echo "PATCH DOES NOT APPLY"; git -C /repo worktree remove --force "$W"; exit 3; }
echo "demo on patched tree: exit $(run_demo) (want 1)"
if [ -z "$SKIP_TESTS" ]; then
  (cd "$W" && LOKY_MAX_CPU_COUNT=2 PYTHONHASHSEED=0 PYTHONPATH="$W/src:/verif/shims" timeout 2400 /venv/bin/python -m pytest -q -p no:cacheprovider --timeout=600 -n 8 tests 2>&1 | grep -E "passed|failed|error" | tail -1)
  git -C "$W" checkout -- tests 2>/dev/null
fi
cd ${VERIF_DIR:-/verif}
for c in $CHECKS; do
  out=$(VK_REPO_SRC="$W/src" ./check $c quick 2>&1); rc=$?
  echo "check $c on patched tree: rc=$rc  $(echo "$out" | grep -c '^VIOLATION') violation lines"
  echo "$out" | grep '^VIOLATION' | head -3 | cut -c1-260
done
git -C /repo worktree remove --force "$W"
