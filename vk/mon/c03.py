"""C03 — surplus transfers and STV rounds conserve votes."""
import itertools
from fractions import Fraction as F

from .. import canon, cases, rules, rng, oracle, gen
from ..core import observe

META = {
    "level": "exploration",
    "rule": ("function level: direct calls of fractional_transfer/random_transfer on generated (winner, tally, ballots, "
             "threshold) with duplicates, exhausted and foreign ballots; random rule checked in law mode (arguments of "
             "random.sample), scripted mode (forced subsets) and seeded mode. run level: STV with either transfer, weight "
             "balance per round against the reference. distinct = hash of the call/run; non-trivial = surplus>0 with at "
             "least one exhausted and one foreign ballot (function) or a run with a surplus round and an exhausted ballot."),
    "assumptions": ["random.sample(pop,k) is a uniform k-subset of pop (trusted primitive): the random rule is decided by "
                    "checking the population and k handed to it, plus what is done with the result"],
    "min_obs": {"all": {"frac_calls": 500, "random_calls": 300, "random_sample_law_checks": 200, "forced_subsets": 100,
                        "run_rounds_balanced": 500, "random_runs": 50, "local_rounds_balanced": 1000}},
}


def gen_call(rnd, integer):
    n = rnd.randint(2, 6)
    cs = gen.cands(rnd, n)
    w = cs[0]
    bl = []
    for _ in range(rnd.randint(1, 8)):
        if rnd.random() < 0.7:
            r = [w] + rnd.sample(cs[1:], rnd.randint(0, n - 1))
        else:
            r = rnd.sample(cs, rnd.randint(1, n))
        if integer:
            wt = F(rnd.randint(1, 4))
        elif rnd.random() < 0.25:
            # awkward rationals / large electorates: transfer values whose reduced denominator exceeds 10^6
            wt = rnd.choice([F(700001, 1009), F(rnd.randint(1, 10 ** 7), rnd.choice([997, 1009, 7919])),
                             F(rnd.randint(10 ** 6, 10 ** 7)), F(5, 7) ** rnd.randint(3, 9)])
        else:
            wt = gen.weight(rnd, rnd.choice(["int", "rat"]))
        bl.append(canon.spec_ballot(r=[[c] for c in r], w=wt, id="x%d" % len(bl) if rnd.random() < 0.15 else None))
    if rnd.random() < 0.5 and bl:
        for _ in range(rnd.randint(1, 3)):
            bl.append(dict(rnd.choice(bl)))  # duplicates (un-condensed input)
    tally = sum((canon.pf(b["w"]) for b in bl if b["r"][0] == [w]), F(0))
    if tally < 1:
        return None
    T = rnd.randint(1, int(tally))
    if rnd.random() < 0.2:
        T = int(tally)
    return {"kind": "random" if integer else "fractional", "winner": w, "cands": cs, "ballots": bl,
            "tally": canon.fs(tally), "T": T}


def expected_parts(case):
    w = case["winner"]
    win, other = {}, {}
    for b in case["ballots"]:
        r = tuple(c[0] for c in b["r"])
        r2 = tuple(c for c in r if c != w)
        wt = canon.pf(b["w"])
        if not r2:
            continue
        d = win if r[0] == w else other
        d[r2] = d.get(r2, F(0)) + wt
    return win, other


def out_multiset(ballots):
    got = {}
    for b in ballots:
        r = tuple(next(iter(g)) for g in b.ranking)
        got[r] = got.get(r, F(0)) + b.weight
    return got


def basic_output_checks(ctx, case, out_ballots):
    w = case["winner"]
    inputs = [tuple(c[0] for c in b["r"]) for b in case["ballots"]]
    images = {tuple(c for c in r if c != w) for r in inputs}
    for b in out_ballots:
        if any(len(g) != 1 for g in b.ranking):
            ctx.fail("transfer output has a tied/empty position", case, {"ranking": canon.groups(b.ranking)})
            return False
        r = tuple(next(iter(g)) for g in b.ranking)
        if w in r:
            ctx.fail("transfer output still mentions the winner", case, {"ranking": r})
            return False
        if r not in images:
            ctx.fail("transfer output ranking is not an input ranking with the winner deleted", case, {"ranking": r})
            return False
        if b.weight <= 0:
            ctx.fail("transfer output has non-positive weight", case, {"ranking": r, "w": str(b.weight)})
            return False
    return True


def check_call(ctx, case):
    from votekit.elections import fractional_transfer, random_transfer

    w, tally, T = case["winner"], canon.pf(case["tally"]), case["T"]
    ballots = [canon.build_ballot(b) for b in case["ballots"]]
    win, other = expected_parts(case)
    surplus = tally - T
    has_exh = any(len(b["r"]) == 1 and b["r"][0] == [w] for b in case["ballots"])
    has_foreign = any(b["r"][0] != [w] for b in case["ballots"])
    nontriv = surplus > 0 and has_exh and has_foreign
    ctx.case(case, nontrivial=nontriv)
    if case["kind"] == "fractional":
        out = observe(fractional_transfer, w, tally, ballots, T)
        ctx.count("frac_calls")
        if not out.ok:
            ctx.fail(f"fractional_transfer raised {out.etype}", case, {"msg": str(out.exc)[:200]})
            return
        if not basic_output_checks(ctx, case, out.value):
            return
        exp = dict(other)
        for r, wt in win.items():
            v = wt * surplus / tally
            if v > 0:
                exp[r] = exp.get(r, F(0)) + v
        got = out_multiset(out.value)
        if got != exp:
            ctx.fail("fractional_transfer: weights differ from weight*(tally-threshold)/tally", case,
                     {"got": {str(k): str(v) for k, v in got.items()}, "exp": {str(k): str(v) for k, v in exp.items()}})
        return
    # ---- random rule
    transferable = sum(win.values(), F(0))
    k = int(surplus)
    # (1) law mode: tap the primitive
    out, r = rng.tap(lambda: random_transfer(w, tally, ballots, T), seed=ctx.rnd.randrange(10 ** 6))
    ctx.count("random_calls")
    ev = [e for e in r.events if e["prim"] == "random.sample"]
    if transferable < k:
        ctx.count("short_pile")
        if out.ok:
            got = out_multiset(out.value)
            tot_in = sum(other.values(), F(0)) + transferable
            if sum(got.values(), F(0)) > tot_in:
                ctx.fail("random_transfer created votes on a short pile", case, {})
        else:
            ctx.count("short_pile_raised_" + out.etype)  # judged by C01 (random-transfer-short)
        return
    if not out.ok:
        ctx.fail(f"random_transfer raised {out.etype} although transferable >= surplus", case, {"msg": str(out.exc)[:200]})
        return
    if not basic_output_checks(ctx, case, out.value):
        return
    if len(ev) != 1:
        ctx.count("random_primitive_unrecognised")
    else:
        ctx.count("random_sample_law_checks")
        pop = {}
        ok_unit = True
        for b in ev[0]["population"]:
            if b.weight != 1 or not b.ranking:
                ok_unit = False
            rr = tuple(next(iter(g)) for g in b.ranking)
            pop[rr] = pop.get(rr, F(0)) + b.weight
        if not ok_unit or pop != win:
            ctx.fail("random_transfer: population handed to random.sample is not the unit expansion of the winner's "
                     "transferable ballots", case, {"pop": {str(a): str(b) for a, b in pop.items()},
                                                    "exp": {str(a): str(b) for a, b in win.items()}})
            return
        if ev[0]["k"] != k:
            ctx.fail("random_transfer: sample size is not tally-threshold", case, {"k": ev[0]["k"], "exp": k})
            return
    got = out_multiset(out.value)
    diff = {rr: got.get(rr, F(0)) - other.get(rr, F(0)) for rr in set(got) | set(other)}
    if any(v < 0 for v in diff.values()):
        ctx.fail("random_transfer lost a ballot not led by the winner", case, {})
    elif any(v > win.get(rr, F(0)) for rr, v in diff.items()):
        ctx.fail("random_transfer output is not a sub-collection of the winner's ballots", case, {})
    elif sum(diff.values(), F(0)) != k:
        ctx.fail("random_transfer transferred a number of ballots different from tally-threshold", case,
                 {"transferred": str(sum(diff.values(), F(0))), "exp": k})
    # (2) script mode: force subsets through the primitive, check the use of the result
    runs = 0
    for script, o2, r2 in rng.explore(lambda: random_transfer(w, tally, ballots, T), max_runs=3, only={"random.sample"}):
        runs += 1
        e2 = [e for e in r2.events if e["prim"] == "random.sample"]
        if not o2.ok or len(e2) != 1:
            continue
        ctx.count("forced_subsets")
        exp = dict(other)
        for b in e2[0]["result"]:
            rr = tuple(next(iter(g)) for g in b.ranking)
            exp[rr] = exp.get(rr, F(0)) + b.weight
        if out_multiset(o2.value) != exp:
            ctx.fail("random_transfer: output is not (other ballots + the drawn subset), condensed", case,
                     {"script": script})
            break


def local_balance(ctx, c2, cfg, log, T):
    """Per-round conservation decided on the *observed* profiles (input and output of each stored step), independent of
    any reference trace: out = sum over continuing ballots of their weight (x (t-T)/t for ballots led by a quota-elected
    candidate under the fractional rule), ballots without a surviving choice dropping out."""
    israndom = cfg.get("transfer") == "random"
    full = cfg["rule"] == "SequentialRCV"
    for (obj, pin, prev, pout, _new) in log:
        if not hasattr(obj, "threshold"):
            continue
        tally = dict(prev.scores)
        st_idx = prev.round_number + 1
        if st_idx >= len(obj.election_states):
            continue
        s = obj.election_states[st_idx]
        el = {c for g in s.elected for c in g}
        elim = {c for g in s.eliminated for c in g}
        gone = el | elim
        byq = {c for c in el if tally.get(c, F(0)) >= T}
        if el and not byq:
            continue  # default election of the last candidates: everything left is consumed
        w_in = sum((b.weight for b in pin.ballots), F(0))
        w_out = sum((b.weight for b in pout.ballots), F(0))
        ctx.count("local_rounds_balanced")
        if w_out > w_in:
            ctx.fail("a round increased the total ballot weight", c2, {"round": st_idx, "in": str(w_in), "out": str(w_out)})
            return False
        lo = hi = F(0)
        for b in pin.ballots:
            first = next(iter(b.ranking[0]))
            survives = any(not (set(g) <= gone) for g in b.ranking)
            if first in byq and not full:
                t = tally[first]
                share = b.weight * (t - T) / t if t else F(0)
                if israndom:
                    hi += b.weight if survives else 0
                else:
                    lo += share if survives else 0
                    hi += share if survives else 0
            else:
                lo += b.weight if survives else 0
                hi += b.weight if survives else 0
        if israndom:
            # whole ballots: at most the surplus of every winner can continue
            cap = sum((tally[c] - T for c in byq), F(0)) + sum((b.weight for b in pin.ballots if next(iter(b.ranking[0])) not in byq), F(0))
            if w_out > min(hi, cap):
                ctx.fail("random transfer: more weight continues than the winners' surplus allows", c2,
                         {"round": st_idx, "out": str(w_out), "cap": str(min(hi, cap))})
                return False
            if w_out < lo:
                ctx.fail("random transfer: ballots not led by a winner lost weight", c2, {"round": st_idx})
                return False
        elif w_out != lo:
            ctx.fail("round does not conserve votes: weight after the round differs from (continuing ballots at full weight + "
                     "winners' ballots at (tally-threshold)/tally), dropping only ballots with no surviving choice", c2,
                     {"round": st_idx, "weight_in": str(w_in), "weight_out": str(w_out), "expected_out": str(lo),
                      "elected": sorted(map(str, el)), "eliminated": sorted(map(str, elim)), "T": str(T)})
            return False
    return True


def sibling_call(rnd, case):
    """same winner, tally, threshold and the same set of distinct (ranking, weight) ballots, other multiplicities:
    extra copies of ballots not led by the winner, multiplicities permuted among winner-led ballots of equal weight"""
    w = case["winner"]
    bl = [dict(b) for b in case["ballots"]]
    foreign = [b for b in bl if b["r"][0] != [w]]
    if foreign:
        for _ in range(rnd.randint(1, 2)):
            bl.insert(rnd.randrange(len(bl) + 1), dict(rnd.choice(foreign)))
    led = [b for b in bl if b["r"][0] == [w]]
    byw = {}
    for b in led:
        byw.setdefault(b["w"], []).append(b)
    for wt, group in byw.items():
        distinct = []
        for b in group:
            if b["r"] not in distinct:
                distinct.append(b["r"])
        if len(distinct) >= 2:
            # move one copy from one ranking to another ranking of the same weight: tally unchanged
            src = rnd.choice(group)
            dst = rnd.choice([r for r in distinct if r != src["r"]] or distinct)
            if sum(1 for b in group if b["r"] == src["r"]) >= 2:
                src["r"] = dst
    c2 = dict(case)
    c2["ballots"] = bl
    return c2


def check_run(ctx, case, max_runs):
    """run level: weight balance per round"""
    cfg, spec = case["cfg"], case["profile"]
    cands, ballots = canon.plain(spec)
    prof = ctx.guard("build", canon.build_profile, spec)
    if prof is None:
        return
    ref = oracle.stv_ref(cfg, cands, ballots)
    T = ref.T
    israndom = cfg.get("transfer") == "random"
    script0 = case.get("script")
    def go():
        rules.STEP_LOG[0] = []
        try:
            o = rules.run(cfg, prof)[0]
            o.steplog = rules.STEP_LOG[0]
            return o
        finally:
            rules.STEP_LOG[0] = None

    if script0 is not None or israndom:
        r = rng.Rng("script", script=script0 or [], policy="seeded", seed=case.get("seed", 0),
                    only={"random.sample"} if israndom and script0 is None else None)
        with r:
            out = go()
        runs = [(script0 or [], out, r)]
    else:
        runs = rng.explore(go, max_runs=max_runs, raw=True)
    for script, out, r in runs:
        c2 = dict(case)
        c2["script"] = script
        if out.ok and getattr(out, "steplog", None):
            if not ctx.guard("local_balance", local_balance, ctx, c2, cfg, out.steplog, T):
                continue
        if not out.ok:
            ctx.count("run_constructor_raised_skipped")
            continue
        e = out.value
        if israndom:
            ctx.count("random_runs")
        st = e.election_states
        W = [sum(s.scores.values(), F(0)) for s in st]
        nontriv = False
        # reference exhausted-weight per round is only defined for the deterministic (fractional) path
        info = None
        if not israndom:
            try:
                states = [{"elected": {c for g in s.elected for c in g}, "eliminated": {c for g in s.eliminated for c in g},
                           "scores": dict(s.scores), "remaining": [frozenset(g) for g in s.remaining]} for s in st]
                probs, info = ref.validate(states, e.threshold)
            except Exception:
                ctx.harness_error("c03 ref.validate")
                continue
            if probs or info.get("over_quota"):
                ctx.count("run_not_validated_skipped")  # C02's business
                info = None
        prevtally = None
        for i in range(1, len(st)):
            s = st[i]
            ne = sum(len(g) for g in s.elected)
            drop = W[i - 1] - W[i]
            prev = st[i - 1].scores
            byq = [c for g in s.elected for c in g if prev.get(c, F(0)) >= T]
            ctx.count("run_rounds_checked")
            if drop < 0:
                ctx.fail("total ballot weight increased between rounds", c2,
                         {"round": i, "before": str(W[i - 1]), "after": str(W[i]), "outcome": canon.outcome_c(e)})
                break
            isdefault = ne > 0 and not byq
            if isdefault:
                continue
            if cfg["rule"] == "SequentialRCV":
                # full-weight transfer: nothing is consumed; only exhausted ballots leave
                if info is not None:
                    rec = info["per_round"][i - 1]
                    ctx.count("run_rounds_balanced")
                    if drop != rec["exhausted"]:
                        ctx.fail("SequentialRCV round dropped weight other than exhausted ballots", c2,
                                 {"round": i, "drop": str(drop), "exhausted": str(rec["exhausted"])})
                        break
                continue
            low = len(byq) * T
            if drop < low and ne > 0:
                ctx.fail("round consumed less than threshold per quota-elected candidate", c2,
                         {"round": i, "drop": str(drop), "quota_elected": byq, "T": str(T)})
                break
            if info is not None:
                rec = info["per_round"][i - 1]
                exp = rec["quota_elected"] * T + rec["exhausted"] if rec["kind"] == "elect" else rec["exhausted"]
                ctx.count("run_rounds_balanced")
                if rec["exhausted"] > 0 and rec["kind"] == "elect" and prev and any(prev[c] > T for c in byq):
                    nontriv = True
                if drop != exp:
                    ctx.fail("round weight drop is not threshold*quota-elected + exhausted weight", c2,
                             {"round": i, "drop": str(drop), "expected": str(exp), "kind": rec["kind"]})
                    break
            else:
                # random transfer: drop = |Q|*T + (surplus that could not be placed is impossible) + exhausted picks
                hi = sum((prev[c] for c in byq), F(0)) if byq else None
                if byq:
                    ctx.count("run_rounds_balanced")
                    if drop > hi:
                        ctx.fail("round dropped more weight than the winners held", c2, {"round": i})
                        break
                    nontriv = nontriv or any(prev[c] > T for c in byq)
        ctx.case({"cfg": cfg, "profile": spec, "script": script, "seed": case.get("seed", 0)}, nontrivial=nontriv)


def run(ctx):
    nf = ctx.n(9000, 150000)
    for i in range(nf):
        if ctx.expired(0.45):
            break
        c = gen_call(ctx.rnd, integer=(i % 2 == 0))
        if c is not None:
            ctx.guard("check_call", check_call, ctx, c)
            if i % 3 == 0:
                # state leaks between calls: a sibling call (same winner/tally/threshold/distinct ballots, other
                # multiplicities) right after the first one
                ctx.count("sibling_calls")
                ctx.guard("check_call_sibling", check_call, ctx, dict(sibling_call(ctx.rnd, c), prelude=c))
    nr = ctx.n(3500, 80000)
    maxn = 6 if ctx.quick else 8
    for i in range(nr):
        if ctx.expired():
            break
        rule = ctx.rnd.choice(["STV", "STV", "STV", "SequentialRCV", "IRV"])
        c = cases.ranking_case(ctx.rnd, rule, maxn=maxn)
        c["seed"] = ctx.rnd.randrange(10 ** 6)
        ctx.guard("check_run", check_run, ctx, c, 3 if ctx.quick else 12)


def replay(ctx, case):
    if "kind" in case:
        check_call(ctx, case)
    else:
        check_run(ctx, case, 1)
