import sys
sys.path[:0] = ['/repo/src', __import__('os').path.join(__import__('os').path.dirname(__import__('os').path.abspath(__file__)) if '__file__' in globals() else '.', 'shim')]
from fractions import Fraction as F
from votekit import Ballot, PreferenceProfile
import votekit, votekit.utils as u
print(votekit.__file__)
fs = lambda *xs: tuple(frozenset(x if isinstance(x,(set,list,tuple)) else [x]) for x in xs)
# C11 condense asymmetry
b1 = Ballot(ranking=fs('A','B'), weight=1)
b2 = Ballot(ranking=fs('A','B'), scores={'A':2}, weight=3)
for order in ([b1,b2],[b2,b1]):
    pp = PreferenceProfile(ballots=tuple(order)).condense_ballots()
    print([ (b.ranking,b.scores,b.weight) for b in pp.ballots])
print('eq', PreferenceProfile(ballots=(b1,b2)) == PreferenceProfile(ballots=(b2,b1)))
# C04 inexact
pp = PreferenceProfile(ballots=(Ballot(ranking=fs({'A','B','C'}), weight=1),), candidates=('A','B','C'))
print(u.first_place_votes(pp), sum(u.first_place_votes(pp).values()))
pp = PreferenceProfile(ballots=(Ballot(ranking=fs('A'), weight=1),), candidates=('A','B','C','D'))
print(u.borda_scores(pp))
print(u.score_profile_from_rankings(pp,[1,1,0,0]))
