#!/usr/bin/env python3
"""Regenerates MANIFEST.json from the table below (kept valid at all times)."""
import json, os
HERE = os.path.dirname(os.path.dirname(os.path.abspath(__file__)))
ALL = ["C%02d" % i for i in range(1, 21)]
CHECKS = {
 "C01": dict(
   technique="runtime monitor: invariants at the API boundary (seat count, per-round partition, monotone status), exception-policy oracle, round/call budgets; RNG interposition with depth-first enumeration of the choice tree",
   text="Every one of the 18 rule classes is constructed on generated valid profiles (uniform + 14 hostile classes + directed cases) while monitors watch the constructor outcome and every recorded round; random choices are scripted and the choice tree is enumerated up to a branch budget. Holds on the executions observed; nothing is claimed for inputs not run.",
   note="Trusted: the reference scorers / STV step relation used to decide when ValueError is allowed; 'terminates' is restated as <=2n+4 rounds and <=5e6 python calls. Known findings are suppressed only by mechanism predicates in vk/oracle.py.",
   ref="§4 C01"),
 "C02": dict(
   technique="trace validation: every recorded STV/IRV/SequentialRCV round checked against a nondeterministic reference step relation (exact rationals) that follows the observed choice at ties; transfer spy on the public transfer= parameter; scripted RNG tree",
   text="Each recorded round of real STV-family runs must be one of the steps the C02 statement allows from the reference state (quota, who is elected, transfer factor, default election, elimination with initial-first-place tie filter), with tallies and candidate order recomputed independently. Holds on the traces observed.",
   note="Trusted: vk/ref/stv.py as the reading of the statement. Runs whose constructor raises are judged by C01.",
   ref="§4 C02"),
 "C03": dict(
   technique="runtime monitor: function-level conservation oracle on fractional_transfer/random_transfer; law-mode interposition on random.sample (population and k), forced subsets; per-round weight balance of real STV runs against the reference",
   text="Direct transfer calls and whole STV runs are observed; outputs must be winner-free images of the inputs with exactly the prescribed weights, the random rule must hand random.sample exactly the unit expansion of the winner's transferable ballots with k = tally-threshold and return other ballots + the drawn subset; per round the weight drop must equal threshold*quota-elected + exhausted weight.",
   note="Trusted: random.sample is a uniform k-subset (equal likelihood is decided at the primitive's arguments, not by frequency). Short piles (known finding of C01) only demand that no vote is created.",
   ref="§4 C03"),
 "C04": dict(
   technique="differential runtime monitor: scoring utilities and Plurality/SNTV/Borda round records vs an exact-rational reference scorer; scripted tiebreak RNG",
   text="score_profile_from_rankings / first_place_votes / mentions / borda_scores are called on generated profiles (tie groups and unlisted groups up to n, rational weights, int/Fraction/float vectors of all lengths) and compared exactly with the definition, including the per-ballot point sum; Plurality/SNTV/Borda outcomes must be top-m, descending, ties reported or recorded as broken.",
   note="Trusted: vk/ref/scoring.py; float vector entries are read as their exact binary value.",
   ref="§4 C04"),
 "C05": dict(
   technique="runtime monitor: acceptance-predicate oracle with single-limit smallest-margin mutations placed at every tuple position; reference totals and top-m",
   text="Each of the five score-ballot rules is constructed on profiles that respect every limit (some exactly on it) and on profiles where one ballot violates exactly one limit by 1/10^6, is negative or has no scores; accepted <=> no exception, otherwise TypeError; totals and winners are recomputed exactly.",
   note="Trusted: acceptance predicate evaluated on the stored (rounded to denominator<=10^6) scores.",
   ref="§4 C05"),
 "C06": dict(
   technique="runtime monitor: reference margins, brute-force dominating tiers, defining tier properties asserted on the returned tiers (all bipartitions), Condorcet equivalences, DominatingSets/CondoBorda outcome oracle",
   text="PairwiseComparisonGraph, DominatingSets and CondoBorda are run on profiles with cycles, nested cycles, pairwise ties, partial ballots and zero-vote candidates; margins, tiers and winners are compared with independent exact computations.",
   note="n <= 6 (quick) / 7 (thorough): ballot_fill is factorial in the number of missing candidates.",
   ref="§4 C06"),
 "C07": dict(
   technique="runtime monitor: Droop-proportionality axiom evaluated over all 2^n-1 coalitions on every finished STV run (both transfers, both modes), IRV majority; scripted tie-breaks, seeded/scripted random transfers",
   text="For every finished run and every candidate subset S the solid-coalition weight is recomputed from the input and |elected ∩ S| >= min(floor(W/T),|S|,m) is asserted; workloads are biased to coalitions worth exactly k*T and k*T-1.",
   note="Conservative coalition reading (first |S| positions exactly S). Runs that raise are judged by C01.",
   ref="§4 C07"),
}
def main():
    checks = []
    for pid in ALL:
        if pid not in CHECKS: continue
        c = CHECKS[pid]
        checks.append({
          "property_id": pid,
          "quick_cmd": f"./check {pid} quick",
          "thorough_cmd": f"./check {pid} thorough",
          "evidence_file": f"evidence/{pid}.json",
          "replay_cmd_template": f"./check {pid} --replay {{path}}",
          "engine": "vk",
          "level_claimed": {"category": c.get("level", "exploration"), "text": c["text"], "design_ref": c["ref"]},
          "level_note": c["note"],
          "technique": c["technique"],
        })
    man = {
      "version": 1,
      "setup_cmd": "./setup.sh",
      "hooks": {"guard": "VOTEKIT_VERIF", "enable": "no source hooks: every observation point is reachable from the harness (public API, template methods, module-attribute RNG calls); checks import /repo/src directly in fresh interpreters",
                "baseline_off_cmd": "cd /repo && /venv/bin/python -m pytest -ra -q -p no:cacheprovider --timeout=900 --continue-on-collection-errors",
                "source_commits": [], "add_only": True},
      "engines": [{"name": "vk", "path": "vk/", "serves_properties": sorted(CHECKS),
                   "kind_free_text": "runtime monitors over real executions of /repo/src: sharded subprocess driver, seeded hostile workload generators, RNG interposition (tap/script/enumerate), exact-rational reference models, mechanism-keyed known findings"}],
      "checks": checks,
      "not_applicable": [{"property_id": p, "reason": "check not built yet in this session (planned, see DESIGN.md §4)"} for p in ALL if p not in CHECKS],
      "notes": "All checks: ./check <ID> <quick|thorough>; exit 0 held-on-observed (KNOWN-FINDING lines allowed), 1 VIOLATION, 2 INCONCLUSIVE. VERIF_SEED reseeds every generator.",
    }
    json.dump(man, open(os.path.join(HERE, "MANIFEST.json"), "w"), indent=1)
if __name__ == "__main__":
    main()
