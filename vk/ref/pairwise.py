"""Reference head-to-head margins and dominating tiers (brute force), exact rationals."""
import itertools
from fractions import Fraction as F


def margins(cands, ballots):
    """margin[a][b] = weight ranking a above b minus the reverse; listed beats unlisted,
    two unlisted split evenly (cancel)."""
    mg = {a: {b: F(0) for b in cands if b != a} for a in cands}
    for r, w, *_ in ballots:
        pos = {}
        for i, g in enumerate(r):
            for c in (g if isinstance(g, (tuple, list, set, frozenset)) else (g,)):
                pos[c] = i
        for a, b in itertools.permutations(cands, 2):
            if a in pos and b in pos:
                if pos[a] < pos[b]:
                    mg[a][b] += w
                elif pos[a] > pos[b]:
                    mg[a][b] -= w
            elif a in pos:
                mg[a][b] += w
            elif b in pos:
                mg[a][b] -= w
    return mg


def tiers(cands, mg):
    """smallest non-empty dominating subset, removed repeatedly"""
    out = []
    rest = set(cands)
    while rest:
        best = None
        srt = sorted(rest)
        for k in range(1, len(rest) + 1):
            for S in itertools.combinations(srt, k):
                S = set(S)
                if all(mg[a][b] > 0 for a in S for b in rest - S):
                    best = S
                    break
            if best:
                break
        out.append(best)
        rest -= best
    return out


def tiers_fast(cands, mg):
    """Same tiers via strongly connected components of the 'not beaten by' relation
    (used for n > 8 where subset enumeration is too slow): a <-> b in one tier iff
    mutually reachable through edges x->y meaning mg[x][y] >= 0."""
    cands = list(cands)
    reach = {a: {a} | {b for b in cands if b != a and mg[a][b] >= 0} for a in cands}
    changed = True
    while changed:
        changed = False
        for a in cands:
            new = set().union(*(reach[b] for b in reach[a]))
            if not new <= reach[a]:
                reach[a] |= new
                changed = True
    comps = []
    seen = set()
    for a in cands:
        if a in seen:
            continue
        comp = {b for b in reach[a] if a in reach[b]}
        seen |= comp
        comps.append(comp)
    comps.sort(key=lambda c: -len(reach[next(iter(c))]))
    return comps


def check_tier_properties(cands, mg, tiers_obs):
    """the defining properties asserted on the returned tiers themselves"""
    probs = []
    fl = [c for t in tiers_obs for c in t]
    if sorted(fl) != sorted(cands):
        probs.append(("not a partition", sorted(map(str, fl)), sorted(map(str, cands))))
        return probs
    for i, t in enumerate(tiers_obs):
        for u in tiers_obs[i + 1:]:
            for a in t:
                for b in u:
                    if not mg[a][b] > 0:
                        probs.append(("upper does not beat lower", a, b, str(mg[a][b])))
    for t in tiers_obs:
        t = sorted(t)
        if len(t) <= 10:
            for k in range(1, len(t)):
                for S in itertools.combinations(t, k):
                    R = [c for c in t if c not in S]
                    if all(mg[a][b] > 0 for a in S for b in R):
                        probs.append(("tier splits", list(S), R))
                        break
    return probs


def condorcet_winner(cands, mg):
    for a in cands:
        if all(mg[a][b] > 0 for b in cands if b != a):
            return a
    return None
