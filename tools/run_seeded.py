#!/usr/bin/env python3
"""Regression run over seeded/: every seeded change must make the checks named in its meta.json exit 1.

For each seeded/<name>/: scratch worktree of /repo HEAD, git apply patch.diff, run ./check <id> quick with
VK_REPO_SRC=<worktree>/src for the first check listed under caught_by, remove the worktree.  Prints one line per change.
usage: tools/run_seeded.py [name-substring ...]
"""
import json, os, subprocess, sys, tempfile
HERE = os.path.dirname(os.path.dirname(os.path.abspath(__file__)))
def main():
    sel = sys.argv[1:]
    bad = 0
    for name in sorted(os.listdir(os.path.join(HERE, "seeded"))):
        d = os.path.join(HERE, "seeded", name)
        if not os.path.isdir(d) or name.startswith("_") or (sel and not any(s in name for s in sel)):
            continue
        meta = json.load(open(os.path.join(d, "meta.json")))
        if meta.get("neutralised_by"):
            print(f"{name:55s} skipped: no longer a property break since fix {meta['neutralised_by']} (its demo passes on the patched tree)")
            continue
        own = meta["breaks_property"]
        checks = [own] if own in meta["caught_by"] else meta["caught_by"][:1]
        w = tempfile.mkdtemp(prefix="vk_seeded_")
        os.rmdir(w)
        subprocess.run(["git", "-C", "/repo", "worktree", "add", "-q", "--detach", w, "HEAD"], check=True)
        try:
            r = subprocess.run(["git", "-C", w, "apply", os.path.join(d, "patch.diff")], capture_output=True, text=True)
            if r.returncode != 0:
                print(f"{name:55s} PATCH-DOES-NOT-APPLY to current HEAD")
                bad += 1
                continue
            res = []
            for c in checks:
                rr = subprocess.run([os.path.join(HERE, "check"), c, "quick"], cwd=HERE, capture_output=True, text=True,
                                    env=dict(os.environ, VK_REPO_SRC=os.path.join(w, "src")))
                res.append((c, rr.returncode, sum(1 for ln in rr.stdout.splitlines() if ln.startswith("VIOLATION"))))
            ok = all(rc == 1 for _, rc, _ in res)
            bad += (not ok)
            print(f"{name:55s} {'caught' if ok else 'MISSED'} {res}", flush=True)
        finally:
            subprocess.run(["git", "-C", "/repo", "worktree", "remove", "--force", w])
    print("missed/unusable:", bad)
    return 1 if bad else 0
if __name__ == "__main__":
    sys.exit(main())
