"""pytest plugin: attaches the C01 invariants (and the C11 condense invariant) to every election / profile the
repository's own test-suite constructs, turning the suite into a monitored workload (thorough tier of C01).

Loaded with `-p vk.pytest_plugin`; writes one JSON line per observation summary / violation to $VK_PLUGIN_OUT."""
import json
import os

OUT = os.environ.get("VK_PLUGIN_OUT")
STATS = {"elections_observed": 0, "rounds_checked": 0, "condense_observed": 0, "violations": 0}


def _emit(rec):
    if OUT:
        with open(OUT, "a") as f:
            f.write(json.dumps(rec, default=str) + "\n")


def _check_election(e):
    cands = sorted(map(str, e._profile.candidates))
    st = e.election_states
    prev_el, prev_x = set(), set()
    for i in range(len(st)):
        El = [str(c) for g in e.get_elected(i) for c in g]
        Re = [str(c) for g in e.get_remaining(i) for c in g]
        Xl = [str(c) for g in e.get_eliminated(i) for c in g]
        STATS["rounds_checked"] += 1
        if sorted(El + Re + Xl) != cands:
            return f"round {i}: groups are not a partition of the candidates", {"elected": El, "remaining": Re, "eliminated": Xl}
        if not prev_el <= set(El) or not prev_x <= set(Xl):
            return f"round {i}: status not monotone", {}
        prev_el, prev_x = set(El), set(Xl)
    name = type(e).__name__
    m = 1 if name in ("IRV", "TopTwo") else getattr(e, "m_2", getattr(e, "m", None))
    if name != "DominatingSets" and isinstance(m, int):
        n_el = sum(len(g) for g in e.get_elected())
        if n_el != m:
            return f"elected {n_el} candidates, expected {m}", {}
    return None


def pytest_configure(config):
    import votekit  # noqa
    import votekit.elections  # noqa  (must come first: votekit.models <-> votekit.elections import cycle)
    import votekit.models as M
    import votekit.pref_profile as PP

    orig_init = M.Election.__init__

    def init(self, *a, **k):
        orig_init(self, *a, **k)
        try:
            STATS["elections_observed"] += 1
            bad = _check_election(self)
        except Exception as ex:  # harness problem: report, never fail the test
            _emit({"kind": "harness_error", "msg": repr(ex)[:300]})
            return
        if bad:
            STATS["violations"] += 1
            _emit({"kind": "violation", "rule": type(self).__name__, "what": bad[0], "detail": bad[1],
                   "test": os.environ.get("PYTEST_CURRENT_TEST", "")})

    M.Election.__init__ = init

    orig_condense = PP.PreferenceProfile.condense_ballots

    def condense(self):
        out = orig_condense(self)
        try:
            STATS["condense_observed"] += 1

            def ms(bl):
                d = {}
                for b in bl:
                    k = (tuple(b.ranking) if b.ranking else (), frozenset(b.scores.items()) if b.scores else frozenset())
                    d[k] = d.get(k, 0) + b.weight
                return d

            if ms(self.ballots) != ms(out.ballots) or len(ms(out.ballots)) != len(out.ballots):
                STATS["violations"] += 1
                _emit({"kind": "violation", "rule": "condense_ballots", "what": "condensing changed the content multiset or left duplicates",
                       "detail": {}, "test": os.environ.get("PYTEST_CURRENT_TEST", "")})
        except Exception as ex:
            _emit({"kind": "harness_error", "msg": repr(ex)[:300]})
        return out

    PP.PreferenceProfile.condense_ballots = condense


def pytest_sessionfinish(session, exitstatus):
    _emit({"kind": "stats", **STATS})
