"""Reference positional scoring: exact rationals, written from the C04 statement."""
from fractions import Fraction as F


def to_frac(x):
    return x if isinstance(x, F) else F(x)


def positional(cands, ballots, vector):
    """score(c) = sum_b w_b * (average of the vector entries over the positions c's
    tie group spans); unlisted candidates form one last group; vector zero-padded."""
    n = len(cands)
    vec = [to_frac(v) for v in vector] + [F(0)] * max(0, n - len(vector))
    sc = {c: F(0) for c in cands}
    for r, w, _ in ballots:
        listed = [c for g in r for c in g]
        groups = [list(g) for g in r]
        missing = [c for c in cands if c not in listed]
        if missing:
            groups.append(missing)
        pos = 0
        for g in groups:
            k = len(g)
            pts = sum(vec[pos:pos + k], F(0)) / k
            for c in g:
                sc[c] += w * pts
            pos += k
    return sc


def first_place(cands, ballots):
    return positional(cands, ballots, [1])


def borda(cands, ballots):
    return positional(cands, ballots, list(range(len(cands), 0, -1)))


def mentions(cands, ballots):
    sc = {c: F(0) for c in cands}
    for r, w, _ in ballots:
        for g in r:
            for c in g:
                sc[c] += w
    return sc


def rating_totals(cands, ballots):
    sc = {c: F(0) for c in cands}
    for _, w, s in ballots:
        for c, v in (s or {}).items():
            sc[c] += w * to_frac(v)
    return sc


def grouped(scores, high_low=True):
    """candidates grouped by equal score, ordered"""
    by = {}
    for c, v in scores.items():
        by.setdefault(v, set()).add(c)
    return [frozenset(by[v]) for v in sorted(by, reverse=high_low)]


def boundary_tie(scores, m):
    """does a group of equal score straddle seat m?  returns the tied group or None"""
    g = grouped(scores)
    tot = 0
    for s in g:
        if tot < m < tot + len(s):
            return s
        tot += len(s)
        if tot >= m:
            return None
    return None


def topm_ok(scores, winners, m):
    """winners: list of candidates. m winners, none lower than any loser"""
    if len(winners) != m or len(set(winners)) != m:
        return False
    losers = [c for c in scores if c not in winners]
    if not losers or not winners:
        return True
    return min(scores[c] for c in winners) >= max(scores[c] for c in losers)
