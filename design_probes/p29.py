import sys, random, itertools, io, contextlib, collections, json, os, traceback, signal
sys.path[:0] = ['/repo/src', __import__('os').path.join(__import__('os').path.dirname(__import__('os').path.abspath(__file__)) if '__file__' in globals() else '.', 'shim')]
from fractions import Fraction as F
from votekit import Ballot, PreferenceProfile
from votekit.elections import *
import numpy as np
seed=int(sys.argv[1]); rnd=random.Random(seed); random.seed(seed); np.random.seed(seed)
NAMES=['b','A','é x','a10','a9','Zed','"q"','c,d']
def rprof(n, nb, ints, ties):
    cands = rnd.sample(NAMES, n); bl=[]
    for _ in range(nb):
        k = rnd.randint(1,n); r = rnd.sample(cands,k)
        if ties:
            rk=[]; 
            while r:
                j=rnd.randint(1,min(2,len(r))); rk.append(frozenset(r[:j])); r=r[j:]
        else: rk=[frozenset([c]) for c in r]
        w = F(rnd.randint(1,4)) if ints else rnd.choice([F(1),F(2),F(3),F(1,2),F(7,3)])
        bl.append(Ballot(ranking=tuple(rk),weight=w))
    return PreferenceProfile(ballots=tuple(bl), candidates=tuple(cands))
def sprof(n, nb):
    cands = rnd.sample(NAMES, n); bl=[]
    for _ in range(nb):
        sc={c: rnd.choice([0,0,1]) for c in cands}
        if not any(sc.values()): sc[cands[0]]=1
        bl.append(Ballot(scores=sc, weight=F(rnd.randint(1,3))))
    return PreferenceProfile(ballots=tuple(bl), candidates=tuple(cands))
class RB(Exception): pass
def wrap(cls):
    orig=cls.__dict__.get('_run_step')
    if orig is None: return
    def w(self, profile, prev_state, store_states=False):
        if store_states:
            self.__dict__['_vk']=self.__dict__.get('_vk',0)+1
            if self._vk>2*len(self._profile.candidates)+4: raise RB()
        return orig(self, profile, prev_state, store_states)
    cls._run_step=w
for c in [STV,Plurality,Borda,TopTwo,Alaska,DominatingSets,CondoBorda,RandomDictator,BoostedRandomDictator,PluralityVeto,GeneralRating]: wrap(c)
cnt=collections.Counter(); ex={}
def check(name, e, p, m_exp):
    cands=set(p.candidates)
    el=[c for g in e.get_elected() for c in g]
    if m_exp is not None and len(el)!=m_exp: return 'seatcount %d!=%d'%(len(el),m_exp)
    prev_el=set(); prev_elim=set()
    for r in range(len(e.election_states)):
        E=[c for g in e.get_elected(r) for c in g]; R=[c for g in e.get_remaining(r) for c in g]; X=[c for g in e.get_eliminated(r) for c in g]
        allc=E+R+X
        if sorted(allc)!=sorted(cands): return 'partition r=%d'%r
        if not prev_el<=set(E) or not prev_elim<=set(X): return 'monotone r=%d'%r
        prev_el=set(E); prev_elim=set(X)
    return None
for it in range(int(sys.argv[2])):
    n=rnd.randint(1,5); ints=rnd.random()<0.6
    m=rnd.randint(1,n); tb=rnd.choice([None,'random','borda','first_place'])
    quota=rnd.choice(['droop','droop','hare']); sim=rnd.random()<0.5
    pu=rprof(n, rnd.randint(1,6), ints, False); pt=rprof(n, rnd.randint(1,6), True, True); ps=sprof(n, rnd.randint(1,5))
    tr=random_transfer if (ints and rnd.random()<0.4) else fractional_transfer
    jobs=[('STV',lambda: STV(pu,m=m,quota=quota,simultaneous=sim,tiebreak=tb,transfer=tr),pu,m),
          ('IRV',lambda: IRV(pu,quota=quota,tiebreak=tb),pu,1),
          ('SeqRCV',lambda: SequentialRCV(pu,m=m,quota=quota,simultaneous=sim,tiebreak=tb),pu,m),
          ('Plurality',lambda: Plurality(pt,m=m,tiebreak=tb),pt,m),('SNTV',lambda: SNTV(pt,m=m,tiebreak=tb),pt,m),
          ('Borda',lambda: Borda(pt,m=m,tiebreak=tb),pt,m),
          ('TopTwo',lambda: TopTwo(pu,tiebreak=tb),pu,1),
          ('Alaska',lambda: Alaska(pu,m_1=rnd.randint(m,n),m_2=m,quota=quota,simultaneous=sim,tiebreak=tb),pu,m),
          ('Dom',lambda: DominatingSets(pu),pu,None),('Condo',lambda: CondoBorda(pu,m=m),pu,m),
          ('RD',lambda: RandomDictator(pt,m=m),pt,m),('BRD',lambda: BoostedRandomDictator(pt,m=m),pt,m),
          ('PV',lambda: PluralityVeto(pu if ints else rprof(n,rnd.randint(1,5),True,False),m=m,tiebreak=tb),None,m),
          ('Rating',lambda: Rating(ps,m=m,tiebreak=tb),ps,m),('Approval',lambda: Approval(ps,m=m,tiebreak=tb),ps,m),
          ('Cumulative',lambda: Cumulative(ps,m=n,tiebreak=tb),ps,n),('Bloc',lambda: BlocPlurality(ps,m=n,tiebreak=tb),ps,n),('Limited',lambda: Limited(ps,m=n,k=n,tiebreak=tb),ps,n)]
    for name,f,p,mexp in jobs:
        try:
            with contextlib.redirect_stdout(io.StringIO()), contextlib.redirect_stderr(io.StringIO()):
                e=f()
            bad=check(name,e,e._profile,mexp)
            key=(name,'OK') if not bad else (name,'BAD',bad)
        except ValueError as x:
            key=(name,'ValueError',str(x)[:45], 'tb=None' if tb is None else 'tb set')
        except RB: key=(name,'ROUND BUDGET')
        except BaseException as x:
            key=(name,type(x).__name__,str(x)[:45])
        cnt[key]+=1
for k,v in sorted(cnt.items(),key=str): print(v,k)
