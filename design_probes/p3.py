import sys, traceback
sys.path[:0] = ['/repo/src', __import__('os').path.join(__import__('os').path.dirname(__import__('os').path.abspath(__file__)) if '__file__' in globals() else '.', 'shim')]
from votekit.cvr_loaders import load_csv, load_scottish
import csv, os; os.makedirs("csvs", exist_ok=True)
def w(name, rows):
    with open(name,'w',newline='') as f:
        csv.writer(f).writerows(rows)
def show(pp):
    return sorted([(tuple(sorted(map(str,s))[0] for s in b.ranking), str(b.weight), sorted(b.voter_set) if b.voter_set else None) for b in pp.ballots])
rows=[['id','r1','r2','w'],['v1','A','B',2],['v2','A','B',3],['v3','B','',1],['v4','B','A',1]]
w('csvs/t1.csv', rows)
for kw in [dict(), dict(rank_cols=[1,2]), dict(rank_cols=[1,2], id_col=0), dict(rank_cols=[1,2], weight_col=3), dict(id_col=0), dict(rank_cols=[1,2], id_col=0, weight_col=3), dict(rank_cols=[2,1])]:
    try:
        print(kw, show(load_csv('csvs/t1.csv', **kw)))
    except BaseException as e:
        print(kw, 'EXC', type(e).__name__, e)
rows=[['r1','r2','id'],['A','B','v1'],['A','B','v2'],['B','','v3']]
w('csvs/t2.csv', rows)
for kw in [dict(id_col=2), dict(rank_cols=[0,1], id_col=2), dict(rank_cols=[0], id_col=2)]:
    try:
        print(kw, show(load_csv('csvs/t2.csv', **kw)))
    except BaseException as e:
        print(kw, 'EXC', type(e).__name__, e)
rows=[['r1','r2','w'],['A','B',2],['A','B',3],['B','',1]]
w('csvs/t3.csv', rows)
for kw in [dict(weight_col=2), dict(rank_cols=[0,1], weight_col=2)]:
    try:
        print(kw, show(load_csv('csvs/t3.csv', **kw)))
    except BaseException as e:
        print(kw, 'EXC', type(e).__name__, e)
print(load_scottish('/repo/tests/data/csv/scot_wardy_mc_ward.csv'))
