"""C16 — generated ballots follow the documented model distributions.

Decided per clause by (1) law-mode interposition on the sampling primitive (exact,
trusting the primitive's documented semantics), (2) kernel extraction for the MCMC
samplers (detailed balance against the closed-form table) and (3) end-to-end
frequency tests with an explicit false-alarm bound."""
import itertools
import math
import random as _random
from fractions import Fraction as F

import numpy as _np

from .. import canon, bgparams as bp, rng
from ..core import observe
from ..stats import hoeffding_t, pl_prob
from . import c15

META = {
    "level": "exploration",
    "rule": ("law cases = (generator, parameter set, small N, seed): every np.random.choice call made while generating is "
             "matched to the (bloc, slate) it serves and its (candidates, p, replace, size) compared with the interval the "
             "model prescribes; the drawn orders must reappear unchanged on the ballots. type cases = slate-PL ballot-type "
             "sampler driven with scripted uniform arrays (conditional law by bisection). table cases = exact BT samplers' "
             "p vs table and index->ranking. kernel cases = one scripted MCMC step from every state, acceptance located by "
             "bisection, detailed balance vs the closed-form table. chain cases = generate_profile_MCMC / generate_profile("
             "deterministic=False) for 2-40 ballots with proposals and acceptance uniforms scripted: the ballots returned per bloc "
             "must be the states a Metropolis chain for the table visits under that script. frequency cases = 20k (thorough 200k) ballots on fixed "
             "skewed parameter sets vs closed forms with Hoeffding thresholds (alpha=1e-9). spatial cases = rankings "
             "recomputed from returned positions. distinct = hash(case); non-trivial = >=2 blocs or a zero-support "
             "candidate or an extreme cohesion, or any kernel/frequency case."),
    "assumptions": ["np.random.choice(a,size,p,replace=False) = successive sampling without replacement (Plackett-Luce); "
                    "replace=True = independent draws; random.choices / np.random.choice without p are uniform",
                    "frequency tests only bound deviations larger than the stated thresholds"],
    "min_obs": {"all": {"choice_calls_law_checked": 800, "orders_matched_on_ballots": 300, "slate_pl_conditionals": 50,
                        "bt_tables_p_checked": 40, "kernel_pairs_balanced": 60, "freq_tests": 6, "spatial_voters_checked": 300,
                        "ic_uniform_checks": 5, "crossover_split_checks": 20, "chain_steps_validated": 300,
                        "chain_runs_of_3plus_steps": 20,
                        "law_checked_name_PlackettLuce": 50, "law_checked_short_name_PlackettLuce": 50, "law_checked_name_Cumulative": 50,
                        "law_checked_slate_PlackettLuce": 50, "law_checked_slate_BradleyTerry": 50,
                        "law_checked_AlternatingCrossover": 50, "law_checked_CambridgeSampler": 50,
                        "slate_pl_sampler_requests_checked": 50}},
    "soft_deadline": {"quick": 200, "thorough": 3000},
}

TOL = 1e-9


def close(a, b, tol=TOL):
    return abs(float(a) - float(b)) <= tol * max(1.0, abs(float(a)), abs(float(b)))


def seed_all(s):
    _random.seed(s)
    _np.random.seed(s % (2 ** 32))


# ------------------------------------------------------------------ A. law mode on np.random.choice

def nz_interval(p, bloc, slate):
    return bp.norm_interval(p["pref_intervals_by_bloc"][bloc][slate])[0]


def match_pairs(a, pvec, exp, scale_free=False):
    """(a[i], p[i]) must be exactly the prescribed (candidate, support) pairs"""
    if len(a) != len(exp) or set(a) != set(exp):
        return "candidate set differs"
    if pvec is None:
        return "no probabilities given"
    k = 1.0
    if scale_free:
        k = sum(pvec) / sum(exp.values())
    for c, pr in zip(a, pvec):
        if not close(pr, exp[c] * k, 1e-9):
            return f"probability attached to {c} is {pr}, model says {exp[c] * k}"
    return None


def check_law(ctx, case):
    model, p, N = case["model"], case["params"], case["N"]
    extra = case.get("extra", {})
    blocs = list(p["bloc_voter_prop"])
    ext = any(v in (0.0, 1.0) for d in p["cohesion_parameters"].values() for v in d.values())
    zs = any(v == 0 for per in p["pref_intervals_by_bloc"].values() for d in per.values() for v in d.values())
    ctx.case(case, nontrivial=len(blocs) >= 2 or zs or ext)
    seed_all(case["seed"])
    og = observe(bp.make, model, p, extra)
    if not og.ok:
        ctx.count("constructor_raised_skipped")
        return
    g = og.value
    if case.get("decoy"):
        # another generator of the same model with the same bloc / candidate names and other numbers is built (and, half
        # of the time, used) between the construction and the use of the generator under test
        ctx.count("decoy_generators_built" if bp.make_decoy(model, p, extra, use=case["decoy"] == "use") else "decoy_raised")
    if case.get("warmup"):
        # the same generator object has already answered another request when the judged one is made
        try:
            g.generate_profile(case["warmup"])
            ctx.count("warmup_requests_on_same_generator")
        except Exception:  # noqa
            ctx.count("warmup_raised")
    # slate-PL hands the slate patterns to a module-level sampler (whose own law is decided by the type cases): what it is asked
    # for - slate sizes without zero-support candidates, the voter bloc's own cohesion row, the bloc's ballot count - and what it
    # answered are recorded here and compared with the ballots below
    import votekit.ballot_generator as _bg
    type_calls = []
    orig_sampler = getattr(_bg, "sample_cohesion_ballot_types", None)

    def spy_sampler(*a, **kw):
        res = orig_sampler(*a, **kw)
        type_calls.append((a, kw, [list(t) for t in res]))
        return res

    r = rng.Rng("tap", seed=case["seed"])
    with r:
        if model == "slate_PlackettLuce" and orig_sampler is not None:
            _bg.sample_cohesion_ballot_types = spy_sampler
        try:
            if case.get("entry") == "mcmc":
                o = observe(g.generate_profile, N, by_bloc=True, deterministic=False)
            else:
                o = observe(g.generate_profile, N, by_bloc=True)
        finally:
            if orig_sampler is not None:
                _bg.sample_cohesion_ballot_types = orig_sampler
    if not o.ok:
        ctx.count("generation_raised_skipped")  # judged by C14
        return
    by_bloc, pp = o.value
    if model == "slate_PlackettLuce" and type_calls and all(not a and set(kw) == {"slate_to_non_zero_candidates", "num_ballots", "cohesion_parameters_for_bloc"}
                                                            for a, kw, _ in type_calls) and len(type_calls) == len(blocs):
        gblocs = list(getattr(g, "blocs", blocs))
        slate_of_ = {c: s_ for s_, cs_ in p["slate_to_candidates"].items() for c in cs_}
        for (a, kw, res), b in zip(type_calls, gblocs):
            ctx.count("slate_pl_sampler_requests_checked")
            want_sizes = {s_: sum(1 for v in p["pref_intervals_by_bloc"][b][s_].values() if v > 0) for s_ in blocs}
            got_sizes = {s_: len(v) for s_, v in kw["slate_to_non_zero_candidates"].items()}
            coh = kw["cohesion_parameters_for_bloc"]
            nb = int(by_bloc[b].total_ballot_wt)
            if got_sizes != want_sizes or kw["num_ballots"] != nb or set(coh) != set(blocs) or \
                    any(not close(coh[s_], p["cohesion_parameters"][b][s_]) for s_ in blocs):
                ctx.fail("slate_PlackettLuce: the slate patterns of a bloc are requested with the wrong slate sizes / cohesion row / "
                         "ballot count", case, {"bloc": b, "sizes": got_sizes, "want_sizes": want_sizes, "num_ballots": kw["num_ballots"],
                                                "bloc_size": nb, "cohesion": {k: float(v) for k, v in coh.items()},
                                                "want_cohesion": p["cohesion_parameters"][b]})
                return
            # the bloc's ballots carry exactly the patterns the sampler answered (as a multiset)
            from collections import Counter
            zero_b = {c for s_ in blocs for c, v in p["pref_intervals_by_bloc"][b][s_].items() if v == 0}
            obs = Counter()
            for bl in by_bloc[b].ballots:
                names = [next(iter(x)) for x in bl.ranking if len(x) == 1 and not (set(x) <= zero_b)]
                obs[tuple(slate_of_.get(c) for c in names)] += int(bl.weight)
            if obs != Counter(tuple(t) for t in res):
                ctx.fail("slate_PlackettLuce: the ballots of a bloc do not carry the slate patterns that were sampled for it", case,
                         {"bloc": b, "sampled": [list(t) for t in res][:5], "on_ballots": [list(k) for k in obs][:5]})
                return
    calls = [e for e in r.events if e["prim"] == "np.choice" and not (len(e["a"]) > 0 and isinstance(e["a"][0], (int, _np.integer)) and e.get("p") is None and model == "slate_BradleyTerry")]
    sizes = {b: int(by_bloc[b].total_ballot_wt) for b in blocs}
    s2c = p["slate_to_candidates"]
    slate_of = {c: s for s, cs in s2c.items() for c in cs}
    # expected label sequence of the main candidate-order calls
    labels = []
    if model in ("name_PlackettLuce", "short_name_PlackettLuce", "name_Cumulative"):
        for b in blocs:
            nz, zero = bp.combined_interval(p, b)
            for _ in range(sizes[b]):
                labels.append((b, None))
                L = extra["ballot_length"] if model == "short_name_PlackettLuce" else len(bp.all_cands(p))
                if model != "name_Cumulative" and L > len(nz):
                    labels.append((b, "zero-tie"))
    elif model in ("slate_PlackettLuce", "slate_BradleyTerry"):
        for b in blocs:
            for _ in range(sizes[b]):
                for s in blocs:
                    if nz_interval(p, b, s):
                        labels.append((b, s))
    elif model == "AlternatingCrossover":
        for i, b in enumerate(blocs):
            opp = blocs[(i + 1) % 2]
            for _ in range(sizes[b]):
                labels += [(b, b), (b, opp)]
    elif model == "CambridgeSampler":
        for b in blocs:
            labels += [(b, "combined")] * sizes[b]
    # candidate-order calls are those whose population are candidate names
    cand_calls = [e for e in calls if len(e["a"]) > 0 and all(str(x) in slate_of for x in e["a"])]
    if len(cand_calls) != len(labels):
        ctx.count("law_structure_unrecognised")
        ctx.count("law_structure_unrecognised_" + model)
        return
    per_ballot_orders = {b: [] for b in blocs}
    cur = {}
    for e, (b, s) in zip(cand_calls, labels):
        a = [str(x) for x in e["a"]]
        pv = e["p"]
        ctx.count("choice_calls_law_checked")
        ctx.count("law_checked_" + model)  # per model: a generator whose draws are no longer recognised must not hide in the total
        if s == "zero-tie":
            nz, zero = bp.combined_interval(p, b)
            if set(a) != zero or pv is not None and len(set(round(x, 12) for x in pv)) > 1 or e["replace"]:
                ctx.fail(f"{model}: the final tie is not drawn uniformly without replacement from the zero-support candidates", case,
                         {"a": a, "zero": sorted(zero)})
                return
            continue
        if s is None:
            exp, _ = bp.combined_interval(p, b)
        elif s == "combined":
            # Cambridge draws one order over both slates; only the within-slate proportions are prescribed
            c = p["cohesion_parameters"][b][b]
            opp = [x for x in blocs if x != b][0]
            why = None
            for sl, share in ((b, c), (opp, 1 - c)):
                ex = nz_interval(p, b, sl)
                sub = [(x, pr) for x, pr in zip(a, pv or []) if slate_of[x] == sl]
                if not sub:
                    if share > 0:
                        why = f"slate {sl} has cohesion share {share} but none of its candidates can be drawn"
                    continue
                if set(x for x, _ in sub) != set(ex):
                    why = f"candidates of slate {sl} offered to the sampler are not its supported candidates"
                    break
                tot_ = sum(pr for _, pr in sub)
                if tot_ <= 0 or any(not close(pr / tot_, ex[x], 1e-9) for x, pr in sub):
                    why = f"within slate {sl} the probabilities are not proportional to the bloc's interval"
                    break
            if why:
                ctx.fail(f"CambridgeSampler: sampling call for bloc {b} does not use the model's intervals: {why}", case,
                         {"a": a, "p": pv, "bloc": b})
                return
            if e["replace"]:
                ctx.fail("CambridgeSampler: sampling with replacement", case, {})
                return
            per_ballot_orders[b].append(tuple(str(x) for x in list(e["result"])))
            continue
        else:
            exp = nz_interval(p, b, s)
        why = match_pairs(a, pv, exp)
        if why:
            ctx.fail(f"{model}: sampling call for bloc {b}" + (f", slate {s}" if s else "") + f" does not use the model's interval: {why}",
                     case, {"a": a, "p": pv, "model_interval": exp, "bloc": b, "slate": s})
            return
        want_replace = model == "name_Cumulative"
        if bool(e["replace"]) != want_replace:
            ctx.fail(f"{model}: sampling {'with' if e['replace'] else 'without'} replacement, model prescribes the opposite", case, {})
            return
        size = e["size"]
        if model == "name_Cumulative":
            want = extra["num_votes"]
        elif model == "short_name_PlackettLuce":
            want = min(extra["ballot_length"], len(exp))
        else:
            want = len(exp)
        if isinstance(size, (list, tuple)):
            size = size[0] if len(size) == 1 else size
        if size != want:
            ctx.fail(f"{model}: sample size {size} differs from what the model prescribes ({want})", case, {})
            return
        res = [str(x) for x in list(e["result"])]
        if s is None or s == "combined":
            per_ballot_orders[b].append(tuple(res))
        else:
            cur[s] = tuple(res)
            last_slate = [x for x in blocs if nz_interval(p, b, x)][-1] if model != "AlternatingCrossover" else [x for x in blocs if x != b][0]
            if s == last_slate:
                per_ballot_orders[b].append(tuple(sorted(cur.items())))
                cur = {}
    # the drawn orders must reappear unchanged on the ballots (multiset comparison per bloc; ballots are condensed)
    for b in blocs:
        got = {}
        for x in by_bloc[b].ballots:
            w = int(x.weight)
            if model == "name_Cumulative":
                key = tuple(sorted((c, int(v)) for c, v in x.scores.items()))
            elif model in ("name_PlackettLuce", "short_name_PlackettLuce"):
                nz, zero = bp.combined_interval(p, b)
                key = tuple(next(iter(gp)) for gp in x.ranking if len(gp) == 1 and not (set(gp) & zero))
            elif model == "CambridgeSampler":
                key = tuple(next(iter(gp)) for gp in x.ranking)
            else:
                zero = {c for d in p["pref_intervals_by_bloc"][b].values() for c, v in d.items() if v == 0}
                flat = [next(iter(gp)) for gp in x.ranking if len(gp) == 1 and not (set(gp) & zero)]
                key = tuple(sorted((s, tuple(c for c in flat if slate_of[c] == s)) for s in blocs if any(slate_of[c] == s for c in flat)))
            got[key] = got.get(key, 0) + w
        exp_ms = {}
        for od in per_ballot_orders[b]:
            if model == "name_Cumulative":
                cnt = {}
                for c in od:
                    cnt[c] = cnt.get(c, 0) + 1
                key = tuple(sorted(cnt.items()))
            elif model == "CambridgeSampler":
                key = None
            elif model == "AlternatingCrossover":
                key = None
            else:
                key = od
            if key is not None:
                exp_ms[key] = exp_ms.get(key, 0) + 1
        if model == "CambridgeSampler":
            # every ballot's per-slate order must be a prefix-compatible sub-order of one drawn combined order
            drawn = list(per_ballot_orders[b])
            for key, w in got.items():
                ok = any(is_suborder_per_slate(key, od, slate_of) for od in drawn)
                ctx.count("orders_matched_on_ballots")
                if not ok:
                    ctx.fail("CambridgeSampler: a ballot's within-slate order does not come from a drawn Plackett-Luce order", case,
                             {"ballot": key, "bloc": b})
                    return
        elif model == "AlternatingCrossover":
            drawn = [dict(od) for od in per_ballot_orders[b]]
            for key, w in got.items():
                kd = dict(key)
                ok = any(all(tuple(d.get(s, ()))[: len(kd[s])] == kd[s] for s in kd) for d in drawn)
                ctx.count("orders_matched_on_ballots")
                if not ok:
                    ctx.fail("AlternatingCrossover: a ballot's within-slate order does not come from a drawn Plackett-Luce order", case,
                             {"ballot": key, "bloc": b})
                    return
        else:
            ctx.count("orders_matched_on_ballots", len(exp_ms))
            if got != exp_ms:
                ctx.fail(f"{model}: the drawn orders do not appear unchanged on the ballots", case,
                         {"bloc": b, "ballots": {str(k): v for k, v in list(got.items())[:4]},
                          "drawn": {str(k): v for k, v in list(exp_ms.items())[:4]}})
                return
    # AC / Cambridge: bloc-first vs opposing-first counts follow the apportioned split
    if model in ("AlternatingCrossover", "CambridgeSampler"):
        v, split = [], []
        for b in blocs:
            own = set(s2c[b])
            c = p["cohesion_parameters"][b][b]
            v += [c * p["bloc_voter_prop"][b], (1 - c) * p["bloc_voter_prop"][b]]
            of = sum(int(x.weight) for x in by_bloc[b].ballots if x.ranking and next(iter(x.ranking[0])) in own)
            split += [of, sizes[b] - of]
        ctx.count("crossover_split_checks")
        if model == "AlternatingCrossover":
            ok = bp.valid_hh(v, split, N)
        else:
            pooled = [split[0] + split[1], split[2] + split[3]]
            ok = any(bp.valid_hh(v, [a_, pooled[0] - a_, c_, pooled[1] - c_], N) for a_ in range(pooled[0] + 1) for c_ in range(pooled[1] + 1))
        if not ok and not any(v[i] == 0 and split[i] > 0 for i in range(4)) and not (N < 4 and any(t == 0 for t in v)):
            ctx.fail(f"{model}: bloc-first vs opposing-first ballots are not in the apportioned cohesion split", case,
                     {"types": v, "split": split})


def is_suborder_per_slate(ballot, drawn, slate_of):
    for s in set(slate_of.values()):
        bs = [c for c in ballot if slate_of[c] == s]
        ds = [c for c in drawn if slate_of[c] == s]
        if bs != ds[: len(bs)]:
            return False
    return True


# ------------------------------------------------------------------ B. slate-PL ballot types

def check_slate_types(ctx, case):
    import votekit.ballot_generator as bg

    sizes, coh = case["sizes"], case["cohesion"]
    slates = list(sizes)
    s2nz = {s: [f"{s}{i}" for i in range(sizes[s])] for s in slates}
    n = sum(sizes.values())
    ctx.case(case, nontrivial=len(slates) >= 2)

    def run_flips(flips):
        orig = _np.random.uniform
        _np.random.uniform = lambda *a, **k: _np.array(flips, dtype=float)
        try:
            return bg.sample_cohesion_ballot_types(s2nz, 1, dict(coh))[0]
        finally:
            _np.random.uniform = orig

    def explore(history, flips):
        left = {s: sizes[s] - history.count(s) for s in slates}
        avail = [s for s in slates if left[s] > 0]
        if len(history) == n or not avail:
            return
        tot = sum(coh[s] for s in avail)
        if tot == 0:
            return  # remaining slates have zero cohesion: completed by a uniform shuffle (trusted primitive)
        k = len(history)

        def at(f):
            fl = list(flips) + [f] + [0.5] * (n - k - 1)
            o = observe(run_flips, fl)
            return o.value[k] if o.ok and o.value[k] in slates else None

        grid = [(i + 0.5) / 64 for i in range(64)]
        vals = [at(f) for f in grid]
        # boundaries by bisection between grid points whose value differs
        measure = {s: 0.0 for s in slates}
        lo_edge = 0.0
        for i in range(len(grid)):
            nxt_edge = 1.0
            if i + 1 < len(grid) and vals[i + 1] != vals[i]:
                a, b_ = grid[i], grid[i + 1]
                for _ in range(40):
                    m = (a + b_) / 2
                    if at(m) == vals[i]:
                        a = m
                    else:
                        b_ = m
                nxt_edge = (a + b_) / 2
            elif i + 1 < len(grid):
                continue
            if vals[i] is not None:
                measure[vals[i]] += nxt_edge - lo_edge
            lo_edge = nxt_edge
        for s in slates:
            exp = coh[s] / tot if s in avail else 0.0
            ctx.count("slate_pl_conditionals")
            if abs(measure[s] - exp) > 1e-6:
                ctx.fail("slate_PlackettLuce ballot types: conditional probability of the next slate is not cohesion share "
                         "renormalised over the slates not yet used up", case,
                         {"history": history, "slate": s, "measured": measure[s], "expected": exp})
                return False
        for s in avail:
            if coh[s] > 0:
                # a flip in the interior of s's bin
                js = [grid[i] for i in range(len(grid)) if vals[i] == s]
                if js:
                    if explore(history + [s], list(flips) + [js[len(js) // 2]]) is False:
                        return False
        return True

    explore([], [])


# ------------------------------------------------------------------ C. exact BT samplers

def check_bt_tables(ctx, case):
    p, N = case["params"], case["N"]
    blocs = list(p["bloc_voter_prop"])
    ctx.case(case, nontrivial=len(blocs) >= 2)
    for model in ("name_BradleyTerry", "slate_BradleyTerry"):
        if model == "slate_BradleyTerry" and len(blocs) != 2:
            continue
        seed_all(case["seed"])
        og = observe(bp.make, model, p)
        if not og.ok:
            continue
        g = og.value
        if case.get("decoy"):
            ctx.count("decoy_generators_built" if bp.make_decoy(model, p, None, use=case["decoy"] == "use") else "decoy_raised")
        r = rng.Rng("tap", seed=case["seed"])
        with r:
            o = observe(g.generate_profile, N, by_bloc=True)
        if not o.ok:
            continue
        by_bloc, pp = o.value
        tabs = g.pdfs_by_bloc if model == "name_BradleyTerry" else g.ballot_type_pdf
        idx_calls = [e for e in r.events if e["prim"] == "np.choice" and e["p"] is not None and len(e["a"]) > 0
                     and isinstance(e["a"][0], (int, _np.integer))]
        if len(idx_calls) != len(blocs):
            ctx.count("bt_structure_unrecognised")
            continue
        s2c = p["slate_to_candidates"]
        slate_of = {c: s for s, cs in s2c.items() for c in cs}
        for b, e in zip(blocs, idx_calls):
            keys = list(tabs[b].keys())
            ctx.count("bt_tables_p_checked")
            if model == "name_BradleyTerry":
                exp, zero = c15.ref_combined(p, b)
                rt = c15.ref_name_bt(exp)
            else:
                rt = c15.ref_slate_bt(p, b, [x for x in blocs if x != b][0])
                if rt is None:
                    continue
            if len(e["a"]) != len(keys) or len(e["p"]) != len(keys) or any(not close(e["p"][i], rt[keys[i]], 1e-9) for i in range(len(keys))):
                ctx.fail(f"{model}: probabilities handed to the sampler differ from the model's table (aligned with its ranking list)",
                         case, {"bloc": b})
                return
            if e["replace"] is False:
                ctx.fail(f"{model}: ballots drawn without replacement", case, {})
                return
            res = _np.array(e["result"], ndmin=1)
            want = {}
            for i in res:
                k = tuple(keys[int(i)])
                want[k] = want.get(k, 0) + 1
            got = {}
            for x in by_bloc[b].ballots:
                if model == "name_BradleyTerry":
                    k = tuple(next(iter(gp)) for gp in x.ranking if len(gp) == 1 and next(iter(gp)) in exp)
                else:
                    zero = {c for d in p["pref_intervals_by_bloc"][b].values() for c, v in d.items() if v == 0}
                    k = tuple(slate_of[next(iter(gp))] for gp in x.ranking if len(gp) == 1 and not (set(gp) & zero))
                got[k] = got.get(k, 0) + int(x.weight)
            if got != want:
                ctx.fail(f"{model}: sampled index i does not yield entry i of the table's ranking list", case,
                         {"bloc": b, "got": {str(k): v for k, v in list(got.items())[:4]}, "want": {str(k): v for k, v in list(want.items())[:4]}})
                return


# ------------------------------------------------------------------ D. MCMC kernel extraction

def bisect_accept(step, state):
    """acceptance probability of the scripted proposal = sup{u : move happens when random.random() returns u}"""
    if step(1 - 1e-16) != state:
        return 1.0
    if step(0.0) == state:
        return 0.0
    lo, hi = 0.0, 1.0
    for _ in range(48):
        mid = (lo + hi) / 2
        if step(mid) != state:
            lo = mid
        else:
            hi = mid
    return lo


def check_kernel_name_bt(ctx, case):
    from votekit import Ballot

    p = case["params"]
    blocs = list(p["bloc_voter_prop"])
    ctx.case(case, nontrivial=True)
    og = observe(bp.make, "name_BradleyTerry", p)
    if not og.ok:
        return
    g = og.value
    if not hasattr(g, "_BT_mcmc"):
        ctx.count("kernel_attach_point_missing")
        return
    for b in blocs:
        exp, zero = c15.ref_combined(p, b)
        if len(exp) < 2 or len(exp) > 4:
            continue
        pi = {k: float(v) for k, v in c15.ref_name_bt(exp).items()}
        interval = g.pref_interval_by_bloc[b].interval
        cands = list(exp)
        prop_args = []

        def step(state, j, u):
            oc, orr = _random.choices, _random.random

            def fake_choices(pop, weights=None, *, cum_weights=None, k=1):
                prop_args.append((list(pop), weights, cum_weights))
                return [j] * k

            _random.choices = fake_choices
            _random.random = lambda: u
            try:
                pp = g._BT_mcmc(1, interval, Ballot(ranking=tuple(frozenset([c]) for c in state)))
            finally:
                _random.choices, _random.random = oc, orr
            return tuple(next(iter(s)) for s in pp.ballots[0].ranking)

        worst = 0.0
        for s in itertools.permutations(cands):
            for j in range(len(cands) - 1):
                t = list(s)
                t[j], t[j + 1] = t[j + 1], t[j]
                t = tuple(t)
                o1 = observe(bisect_accept, lambda u: step(s, j, u), s)
                o2 = observe(bisect_accept, lambda u: step(t, j, u), t)
                if not o1.ok or not o2.ok:
                    ctx.count("kernel_step_raised")
                    continue
                # the scripted proposal must actually lead to t (adjacent transposition j)
                if o1.value > 0 and step(s, j, 0.0) != t:
                    ctx.fail("name_BradleyTerry MCMC: proposal j does not swap positions j, j+1", case, {"state": s, "j": j})
                    return
                res = abs(pi[s] * o1.value - pi[t] * o2.value)
                worst = max(worst, res)
                ctx.count("kernel_pairs_balanced")
                if res > 1e-6:
                    ctx.fail("name_BradleyTerry MCMC: kernel violates detailed balance w.r.t. the Bradley-Terry table "
                             "(stationary distribution is not the model's)", case,
                             {"bloc": b, "s": s, "t": t, "acc_s_to_t": o1.value, "acc_t_to_s": o2.value, "pi_s": pi[s], "pi_t": pi[t]})
                    return
        if prop_args:
            pop, w, cw = prop_args[0]
            if pop != list(range(len(cands) - 1)) or w is not None or cw is not None:
                ctx.fail("name_BradleyTerry MCMC: proposal is not uniform over the adjacent pairs", case, {"pop": pop, "weights": str(w)})
                return
        ctx.extra.setdefault("kernel_residuals", []).append(worst)


def check_kernel_slate_bt(ctx, case):
    p = case["params"]
    blocs = list(p["bloc_voter_prop"])
    ctx.case(case, nontrivial=True)
    if len(blocs) != 2:
        return
    og = observe(bp.make, "slate_BradleyTerry", p)
    if not og.ok:
        return
    g = og.value
    if not hasattr(g, "_sample_ballot_types_MCMC"):
        ctx.count("kernel_attach_point_missing")
        return
    for b in blocs:
        opp = [x for x in blocs if x != b][0]
        rt = c15.ref_slate_bt(p, b, opp)
        if rt is None or len(rt) > 24 or len(next(iter(rt))) < 2:
            continue
        pdf = {k: float(v) for k, v in rt.items()}
        prop_args = []

        def run_steps(js, us):
            oc, orr = _np.random.choice, _random.random
            it = iter(us)

            def fake_choice(a, size=None, replace=True, p=None):
                prop_args.append((a, p))
                return _np.array(js)

            _np.random.choice = fake_choice
            _random.random = lambda: next(it)
            try:
                return g._sample_ballot_types_MCMC(b, len(js))
            finally:
                _np.random.choice, _random.random = oc, orr

        n_own = sum(1 for v in p["pref_intervals_by_bloc"][b][b].values() if v > 0)
        n_opp = sum(1 for v in p["pref_intervals_by_bloc"][b][opp].values() if v > 0)
        start = tuple(x for bb in blocs for x in [bb] * (n_own if bb == b else n_opp))
        # verify the start state: a proposal that is always rejected (u ~ 1) from the seed with a same-slate swap is not
        # available in general, so navigate by forced accepted swaps and check the visited state each time
        from collections import deque

        def path_to(target):
            q = deque([(start, [])])
            seen = {start}
            while q:
                s, path = q.popleft()
                if s == target:
                    return path
                for j in range(len(s) - 1):
                    t = list(s)
                    t[j], t[j + 1] = t[j + 1], t[j]
                    t = tuple(t)
                    if t not in seen:
                        seen.add(t)
                        q.append((t, path + [j]))
            return None

        def acc(s, j):
            path = path_to(s)

            def one(u):
                out = run_steps(path + [j], [0.0] * len(path) + [u])
                if path and tuple(out[len(path) - 1]) != s:
                    raise RuntimeError("could not steer the chain to the requested state")
                return tuple(out[-1])

            return bisect_accept(one, s)

        worst = 0.0
        for s in pdf:
            for j in range(len(s) - 1):
                t = list(s)
                t[j], t[j + 1] = t[j + 1], t[j]
                t = tuple(t)
                if t == s:
                    continue
                o1, o2 = observe(acc, s, j), observe(acc, t, j)
                if (not o1.ok and isinstance(o1.exc, RuntimeError) and pdf[s] == 0) or \
                        (not o2.ok and isinstance(o2.exc, RuntimeError) and pdf[t] == 0):
                    ctx.count("kernel_zero_probability_state_unreachable")
                    continue
                if not o1.ok or not o2.ok:
                    ctx.count("kernel_step_raised")
                    if (not o1.ok and isinstance(o1.exc, ZeroDivisionError)) or (not o2.ok and isinstance(o2.exc, ZeroDivisionError)):
                        ctx.fail("slate_BradleyTerry MCMC: step raised ZeroDivisionError", case, {"bloc": b, "s": s})
                        return
                    continue
                res = abs(pdf[s] * o1.value - pdf[t] * o2.value)
                worst = max(worst, res)
                ctx.count("kernel_pairs_balanced")
                if res > 1e-6:
                    ctx.fail("slate_BradleyTerry MCMC: kernel violates detailed balance w.r.t. the ballot-type table "
                             "(stationary distribution is not the model's)", case,
                             {"bloc": b, "s": s, "t": t, "acc_s_to_t": o1.value, "acc_t_to_s": o2.value, "pi_s": pdf[s], "pi_t": pdf[t]})
                    return
        if prop_args:
            a, pv = prop_args[0]
            if a != len(start) - 1 or pv is not None:
                ctx.fail("slate_BradleyTerry MCMC: proposal is not uniform over the adjacent pairs", case, {"a": str(a)})
                return
        ctx.extra.setdefault("kernel_residuals", []).append(worst)


# ------------------------------------------------------------------ D2. MCMC trajectories through the public entry points

def _scripted_us(rnd, ratios, k):
    """k uniforms in (0,1): seeded values kept away from every acceptance ratio, plus probes hugging the ratios"""
    rs = [r for r in ratios if 0 < r < 1]
    us = []
    while len(us) < k:
        if rs and rnd.random() < 0.35:
            u = rnd.choice(rs) + rnd.choice([-1, 1]) * rnd.choice([1e-3, 1e-5])
        else:
            u = rnd.random()
        if 0 <= u < 1 and all(abs(u - r) > 1e-7 for r in rs):
            us.append(u)
    return us


def _chain_states(start, js, us, pi):
    """states visited by a Metropolis chain with adjacent-swap proposals js and uniforms us for the target pi"""
    s = tuple(start)
    out = [s]
    for j, u in zip(js, us):
        t = list(s)
        t[j], t[j + 1] = t[j + 1], t[j]
        t = tuple(t)
        if t != s and pi[s] > 0 and u < min(1.0, pi[t] / pi[s]):
            s = t
        out.append(s)
    return out


def _explained(observed, js, us, pi, starts):
    """is the observed multiset of states the trajectory (states after each step, or before each step) from some start?"""
    from collections import Counter
    for st in starts:
        tr = _chain_states(st, js, us, pi)
        if observed == Counter(tr[1:]) or observed == Counter(tr[:-1]):
            return True
    return False


def check_chain(ctx, case):
    """name-BT generate_profile_MCMC / slate-BT generate_profile(deterministic=False) asked for N ballots with the proposals and
    the acceptance uniforms scripted: the ballots (types) returned per bloc must be exactly the states a Metropolis chain for the
    model's table visits under that script (from any start state) — every step of a long run, not only the first."""
    from collections import Counter

    model, p, N = case["model"], case["params"], case["N"]
    blocs = list(p["bloc_voter_prop"])
    ctx.case(case, nontrivial=True)
    og = observe(bp.make, model, p)
    if not og.ok:
        ctx.count("constructor_raised_skipped")
        return
    g = og.value
    rnd = _random.Random(case["seed"])
    # reference tables per bloc
    tabs = {}
    for b in blocs:
        if model == "name_BradleyTerry":
            exp, zero = c15.ref_combined(p, b)
            if not (2 <= len(exp) <= 4):
                return
            tabs[b] = ({k: float(v) for k, v in c15.ref_name_bt(exp).items()}, set(zero), len(exp))
        else:
            if len(blocs) != 2:
                return
            opp = [x for x in blocs if x != b][0]
            rt = c15.ref_slate_bt(p, b, opp)
            if rt is None or len(next(iter(rt))) < 2 or any(v == 0 for v in rt.values()):
                return
            zero = {c for s in blocs for c, v in p["pref_intervals_by_bloc"][b][s].items() if v == 0}
            tabs[b] = ({k: float(v) for k, v in rt.items()}, zero, len(next(iter(rt))))
    ratios = sorted({pi[t] / pi[s] for pi, _, _ in tabs.values() for s in pi for t in pi if pi[s] > 0})
    prop_calls, us_given = [], []
    oc, orr, onc = _random.choices, _random.random, _np.random.choice

    def next_u():
        u = _scripted_us(rnd, ratios, 1)[0]
        us_given.append(u)
        return u

    def fake_choices(pop, weights=None, *, cum_weights=None, k=1):
        pop = list(pop)
        js = [rnd.randrange(len(pop)) for _ in range(k)]
        prop_calls.append((pop, weights, cum_weights, k, js, len(us_given)))
        return [pop[j] for j in js]

    def fake_np_choice(a, size=None, replace=True, p=None):
        if p is None and isinstance(a, (int, _np.integer)) and size is not None and replace:
            k = int(size)
            js = [rnd.randrange(int(a)) for _ in range(k)]
            prop_calls.append((list(range(int(a))), None, None, k, js, len(us_given)))
            return _np.array(js)
        return onc(a, size=size, replace=replace, p=p)

    seed_all(case["seed"])
    _random.random = next_u
    if model == "name_BradleyTerry":
        _random.choices = fake_choices
    else:
        _np.random.choice = fake_np_choice
    try:
        if model == "name_BradleyTerry":
            o = observe(g.generate_profile_MCMC, N, by_bloc=True)
        else:
            o = observe(g.generate_profile, N, by_bloc=True, deterministic=False)
    finally:
        _random.choices, _random.random, _np.random.choice = oc, orr, onc
    if not o.ok:
        ctx.count("generation_raised_skipped")  # judged by C14
        return
    by_bloc = o.value[0]
    prop_calls = [c for c in prop_calls if c[3] > 0]
    sizes = {b: int(sum((bl.weight for bl in by_bloc[b].ballots), F(0))) for b in blocs}
    active = [b for b in blocs if sizes[b] > 0]
    # structure: one proposal call per non-empty bloc, in bloc order, k = bloc size, one uniform per step
    if len(prop_calls) != len(active) or any(c[3] != sizes[b] for c, b in zip(prop_calls, active)) or len(us_given) != sum(sizes.values()) \
            or any(c[1] is not None or c[2] is not None for c in prop_calls):
        ctx.count("chain_structure_unrecognised")
        return
    for (pop, _, _, k, js, u0), b in zip(prop_calls, active):
        pi, zero, L = tabs[b]
        if pop != list(range(L - 1)):
            ctx.count("chain_structure_unrecognised")
            return
        us = us_given[u0:u0 + k]
        obs = Counter()
        slate_of = {c: s for s, cs in p["slate_to_candidates"].items() for c in cs}
        for bl in by_bloc[b].ballots:
            rk = [set(x) for x in (bl.ranking or ())]
            if rk and zero and rk[-1] <= zero:
                rk = rk[:-1]
            if any(len(x) != 1 for x in rk):
                ctx.count("chain_structure_unrecognised")
                return
            names = tuple(next(iter(x)) for x in rk)
            key = names if model == "name_BradleyTerry" else tuple(slate_of.get(c) for c in names)
            obs[key] += int(bl.weight)
        if any(kx not in pi for kx in obs):
            ctx.fail(f"{model} MCMC: a returned ballot is not a state of the chain (a complete order of the supported candidates)", case,
                     {"bloc": b, "states": [list(x) for x in obs][:5]})
            return
        ctx.count("chain_steps_validated", k)
        if k >= 3:
            ctx.count("chain_runs_of_3plus_steps")
        if not _explained(obs, js, us, pi, list(pi)):
            ctx.fail(f"{model} MCMC: the ballots returned for a bloc are not the states a Metropolis chain for the model's table visits "
                     "under the scripted proposals and uniforms (from any start state)", case,
                     {"bloc": b, "steps": k, "proposals": js[:12], "uniforms": [round(u, 6) for u in us[:12]],
                      "observed": {" > ".join(map(str, s)): c for s, c in obs.items()}})
            return


# ------------------------------------------------------------------ E. IC / spatial

def check_ic(ctx, case):
    import votekit.ballot_generator as bg

    cs = case["candidates"]
    ctx.case(case, nontrivial=len(cs) >= 3)
    seed_all(case["seed"])
    g = bg.ImpartialCulture(candidates=list(cs))
    r = rng.Rng("tap", seed=case["seed"])
    with r:
        o = observe(g.generate_profile, case["N"])
    if not o.ok:
        return
    ev = [e for e in r.events if e["prim"] == "np.choice"]
    nf = math.factorial(len(cs))
    if len(ev) != 1:
        ctx.count("ic_structure_unrecognised")
        return
    e = ev[0]
    ctx.count("ic_uniform_checks")
    if len(e["a"]) != nf or e["p"] is None or any(abs(x * nf - 1) > 1e-6 for x in e["p"]):
        ctx.fail("ImpartialCulture: ballots are not drawn uniformly over the n! complete rankings", case,
                 {"n_options": len(e["a"]), "p_minmax": [min(e["p"]), max(e["p"])] if e["p"] else None})
        return
    pp = o.value
    rk = {tuple(next(iter(gp)) for gp in b.ranking) for b in pp.ballots}
    if any(sorted(x) != sorted(cs) for x in rk):
        ctx.fail("ImpartialCulture: a ballot is not a complete ranking", case, {})
        return
    # indices biject onto rankings: run with forced index arrays
    seen = set()
    orig = _np.random.choice
    for i in range(nf):
        _np.random.choice = lambda a, size=None, p=None, replace=True, _i=i: _np.array([_i] * size)
        try:
            q = g.generate_profile(1)
        finally:
            _np.random.choice = orig
        seen.add(tuple(next(iter(gp)) for gp in q.ballots[0].ranking))
    if len(seen) != nf:
        ctx.fail("ImpartialCulture: sampled indices do not biject onto the n! rankings", case, {"distinct": len(seen)})


def check_spatial(ctx, case):
    model, N = case["model"], case["N"]
    cs = case["params"]["candidates"]
    ctx.case(case, nontrivial=len(cs) >= 3)
    seed_all(case["seed"])
    g = bp.make(model, case["params"])
    if case.get("warmup"):
        try:
            if model == "ClusteredSpatial":
                g.generate_profile_with_dict({c: (k + 1) % 3 for k, c in enumerate(case["by_cand"])})
            else:
                g.generate_profile(case["warmup"])
            ctx.count("warmup_requests_on_same_generator")
        except Exception:  # noqa
            ctx.count("warmup_raised")
    r = rng.Rng("tap", seed=case["seed"])
    with r:
        if model == "ClusteredSpatial":
            o = observe(g.generate_profile_with_dict, case["by_cand"])
        else:
            o = observe(g.generate_profile, N)
    if not o.ok:
        ctx.count("spatial_raised_skipped")
        return
    if model == "OneDimSpatial":
        ev = [e for e in r.events if e["prim"] == "np.normal"]
        if len(ev) != len(cs) + 1:
            ctx.count("spatial_structure_unrecognised")
            return
        cpos = {c: _np.array([float(ev[i]["result"])]) for i, c in enumerate(cs)}
        vpos = [_np.array([float(x)]) for x in ev[-1]["result"]]
        pp = o.value
    else:
        pp, cpos, vpos = o.value
        cpos = {c: _np.atleast_1d(v) for c, v in cpos.items()}
        vpos = [_np.atleast_1d(v) for v in vpos]
    want = {}
    ambiguous = 0
    for v in vpos:
        if case["params"].get("distance") == "directional" and model != "OneDimSpatial":
            d = {c: bp.directional_distance(v, cpos[c]) for c in cs}
        else:
            d = {c: float(_np.linalg.norm(v - cpos[c])) for c in cs}
        srt = sorted(cs, key=lambda c: d[c])
        if any(abs(d[srt[i]] - d[srt[i + 1]]) < 1e-12 for i in range(len(srt) - 1)):
            ambiguous += 1
            continue
        want[tuple(srt)] = want.get(tuple(srt), 0) + 1
        ctx.count("spatial_voters_checked")
    got = {}
    for b in pp.ballots:
        k = tuple(next(iter(gp)) for gp in b.ranking)
        got[k] = got.get(k, 0) + int(b.weight)
    if ambiguous == 0 and got != want:
        ctx.fail(f"{model}: rankings are not the candidates sorted by increasing distance from each voter", case,
                 {"got": {str(k): v for k, v in list(got.items())[:3]}, "want": {str(k): v for k, v in list(want.items())[:3]}})
    elif ambiguous and any(got.get(k, 0) < w for k, w in want.items()):
        ctx.fail(f"{model}: rankings are not the candidates sorted by increasing distance from each voter", case, {})


# ------------------------------------------------------------------ H. frequency tests

def fixed_params(kind):
    PI = lambda d: d  # noqa
    if kind == "one_bloc3":
        return {"slate_to_candidates": {"W": ["a", "b", "c"]},
                "pref_intervals_by_bloc": {"W": {"W": {"a": 0.8, "b": 0.15, "c": 0.05}}},
                "cohesion_parameters": {"W": {"W": 1.0}}, "bloc_voter_prop": {"W": 1.0}}
    if kind == "two_bloc22":
        return {"slate_to_candidates": {"W": ["w1", "w2"], "C": ["c1", "c2"]},
                "pref_intervals_by_bloc": {"W": {"W": {"w1": 0.8, "w2": 0.2}, "C": {"c1": 0.3, "c2": 0.7}},
                                           "C": {"W": {"w1": 0.4, "w2": 0.6}, "C": {"c1": 0.9, "c2": 0.1}}},
                "cohesion_parameters": {"W": {"W": 0.7, "C": 0.3}, "C": {"C": 0.35, "W": 0.65}},
                "bloc_voter_prop": {"W": 1.0, "C": 0.0}}
    if kind == "two_bloc22_lowcoh":
        q = fixed_params("two_bloc22")
        q["cohesion_parameters"] = {"W": {"W": 0.3, "C": 0.7}, "C": {"C": 0.35, "W": 0.65}}
        return q
    raise KeyError(kind)


def slate_pl_type_law(sizes, coh):
    """closed-form law of slate patterns: cohesion-weighted draws renormalised when a slate is used up"""
    out = {}

    def rec(hist, pr):
        left = {s: sizes[s] - hist.count(s) for s in sizes}
        avail = [s for s in sizes if left[s] > 0]
        if not avail:
            out[tuple(hist)] = out.get(tuple(hist), 0.0) + pr
            return
        tot = sum(coh[s] for s in avail)
        for s in avail:
            if coh[s] > 0:
                rec(hist + [s], pr * coh[s] / tot)

    rec([], 1.0)
    return out


def check_freq(ctx, case):
    kind, N = case["test"], case["N"]
    ctx.case(case, nontrivial=True)
    seed_all(case["seed"])
    alpha = 1e-9

    def compare(label, counts, law, total, tol_extra=0.0):
        K = max(len(law), 2)
        t = hoeffding_t(total, K, alpha) + tol_extra
        keys = set(counts) | set(law)
        worst = max(keys, key=lambda k: abs(counts.get(k, 0) / total - law.get(k, 0.0)))
        dev = abs(counts.get(worst, 0) / total - law.get(worst, 0.0))
        ctx.count("freq_tests")
        ctx.extra.setdefault("freq", []).append({"test": label, "N": total, "cells": K, "max_dev": dev, "threshold": t})
        if dev > t:
            ctx.fail(f"frequency test {label}: empirical distribution deviates from the model's law beyond the Hoeffding threshold",
                     case, {"cell": str(worst), "empirical": counts.get(worst, 0) / total, "model": law.get(worst, 0.0),
                            "threshold": t, "N": total})

    def rank_counts(pp, nz=None):
        c = {}
        for b in pp.ballots:
            k = tuple(next(iter(gp)) for gp in b.ranking if len(gp) == 1)
            c[k] = c.get(k, 0) + int(b.weight)
        return c

    if kind == "name_pl":
        p = fixed_params("one_bloc3")
        pp = bp.make("name_PlackettLuce", p).generate_profile(N)
        w = p["pref_intervals_by_bloc"]["W"]["W"]
        law = {r: pl_prob(r, w) for r in itertools.permutations(w)}
        compare("name_PlackettLuce rankings", rank_counts(pp), law, N)
    elif kind == "short_pl":
        p = fixed_params("one_bloc3")
        pp = bp.make("short_name_PlackettLuce", p, {"ballot_length": 2}).generate_profile(N)
        w = p["pref_intervals_by_bloc"]["W"]["W"]
        law = {r: pl_prob(r, w) for r in itertools.permutations(w, 2)}
        compare("short_name_PlackettLuce rankings", rank_counts(pp), law, N)
    elif kind == "name_pl_2bloc":
        p = fixed_params("two_bloc22")
        pp = bp.make("name_PlackettLuce", p).generate_profile(N)
        w, _ = bp.combined_interval(p, "W")
        law = {r: pl_prob(r, w) for r in itertools.permutations(w)}
        compare("name_PlackettLuce (combined interval) rankings", rank_counts(pp), law, N)
    elif kind == "cumulative":
        p = fixed_params("one_bloc3")
        pp = bp.make("name_Cumulative", p, {"num_votes": 2}).generate_profile(N)
        w = p["pref_intervals_by_bloc"]["W"]["W"]
        law = {}
        for a, b in itertools.product(w, repeat=2):
            k = tuple(sorted({a: 0, b: 0}.keys())) if a != b else (a,)
            key = tuple(sorted(((a, 2),) if a == b else ((a, 1), (b, 1))))
            law[key] = law.get(key, 0.0) + w[a] * w[b]
        c = {}
        for b in pp.ballots:
            key = tuple(sorted((x, int(v)) for x, v in b.scores.items()))
            c[key] = c.get(key, 0) + int(b.weight)
        compare("name_Cumulative points", c, law, N)
    elif kind in ("slate_pl", "slate_bt", "slate_bt_mcmc", "slate_bt_mcmc_lowcoh", "ac", "cambridge"):
        p = fixed_params("two_bloc22_lowcoh" if kind.endswith("lowcoh") else "two_bloc22")
        s2c = p["slate_to_candidates"]
        slate_of = {c: s for s, cs in s2c.items() for c in cs}
        model = {"slate_pl": "slate_PlackettLuce", "slate_bt": "slate_BradleyTerry", "slate_bt_mcmc": "slate_BradleyTerry",
                 "slate_bt_mcmc_lowcoh": "slate_BradleyTerry", "ac": "AlternatingCrossover", "cambridge": "CambridgeSampler"}[kind]
        g = bp.make(model, p)
        bp.make_decoy(model, p, None, use=True)  # another generator with the same names is built and used in between
        seed_all(case["seed"] + 1)
        mc = kind.startswith("slate_bt_mcmc")
        pp = g.generate_profile(N, deterministic=False) if mc else g.generate_profile(N)
        types, orders = {}, {"W": {}, "C": {}}
        for b in pp.ballots:
            flat = [next(iter(gp)) for gp in b.ranking]
            t = tuple(slate_of[c] for c in flat)
            types[t] = types.get(t, 0) + int(b.weight)
            for s in ("W", "C"):
                o = tuple(c for c in flat if slate_of[c] == s)
                if len(o) == len(s2c[s]):
                    orders[s][o] = orders[s].get(o, 0) + int(b.weight)
        if kind == "slate_pl":
            law = slate_pl_type_law({"W": 2, "C": 2}, p["cohesion_parameters"]["W"])
            compare("slate_PlackettLuce slate patterns", types, law, N)
        elif kind == "slate_bt" or mc:
            law = {k: float(v) for k, v in c15.ref_slate_bt(p, "W", "C").items()}
            compare(f"slate_BradleyTerry {'MCMC ' if mc else ''}ballot types", types, law, N, tol_extra=0.04 if mc else 0.0)
        # within-slate order: Plackett-Luce from the voter bloc's interval for that slate (every slate model)
        for s in ("W", "C"):
            w = bp.norm_interval(p["pref_intervals_by_bloc"]["W"][s])[0]
            law = {r: pl_prob(r, w) for r in itertools.permutations(w)}
            tot = sum(orders[s].values())
            if tot > 1000:
                compare(f"{model} within-slate order of slate {s}", orders[s], law, tot)
    elif kind in ("name_bt", "name_bt_mcmc"):
        p = fixed_params("one_bloc3")
        g = bp.make("name_BradleyTerry", p)
        bp.make_decoy("name_BradleyTerry", p, None, use=True)  # another generator with the same names is built and used in between
        seed_all(case["seed"] + 1)
        pp = g.generate_profile_MCMC(N) if kind == "name_bt_mcmc" else g.generate_profile(N)
        exp, _ = c15.ref_combined(p, "W")
        law = {k: float(v) for k, v in c15.ref_name_bt(exp).items()}
        compare("name_BradleyTerry" + (" MCMC" if kind == "name_bt_mcmc" else "") + " rankings", rank_counts(pp), law, N,
                tol_extra=0.04 if kind == "name_bt_mcmc" else 0.0)
    elif kind == "ic":
        import votekit.ballot_generator as bg

        cs = ["x", "y", "z"]
        pp = bg.ImpartialCulture(candidates=cs).generate_profile(N)
        law = {r: 1 / 6 for r in itertools.permutations(cs)}
        compare("ImpartialCulture rankings", rank_counts(pp), law, N)


FREQ_TESTS = ["name_pl", "short_pl", "name_pl_2bloc", "cumulative", "slate_pl", "slate_bt", "slate_bt_mcmc", "slate_bt_mcmc_lowcoh",
              "ac", "cambridge", "name_bt", "name_bt_mcmc", "ic"]

KINDS = {"law": check_law, "types": check_slate_types, "bt": check_bt_tables, "kernel_nbt": check_kernel_name_bt,
         "kernel_sbt": check_kernel_slate_bt, "ic": check_ic, "spatial": check_spatial, "freq": check_freq,
         "chain": check_chain}

LAW_MODELS = ["name_PlackettLuce", "short_name_PlackettLuce", "name_Cumulative", "slate_PlackettLuce", "slate_BradleyTerry",
              "AlternatingCrossover", "CambridgeSampler"]


def gen_law_case(rnd, i):
    model = LAW_MODELS[i % len(LAW_MODELS)]
    nb = 2 if model in ("AlternatingCrossover", "CambridgeSampler", "slate_BradleyTerry") else None
    big = model in ("name_PlackettLuce", "short_name_PlackettLuce", "name_Cumulative", "slate_PlackettLuce") and rnd.random() < 0.05
    if model == "slate_PlackettLuce" and not big and rnd.random() < 0.2:
        nb = rnd.choice([4, 4, 5])  # four / five slates: a second slate can be used up while two are still open
    p = bp.gen_params(rnd, nblocs=nb, max_slate=8 if big else (3 if (nb or 0) < 4 else 2))
    case = {"kind": "law", "model": model, "params": p, "N": rnd.choice([1, 3, 6, 9] if not big else [12, 40]), "seed": rnd.randrange(10 ** 6)}
    n = len(bp.all_cands(p))
    if model == "short_name_PlackettLuce":
        case["extra"] = {"ballot_length": rnd.randint(1, n)}
    if model == "name_Cumulative":
        case["extra"] = {"num_votes": rnd.randint(1, 4)}
    if model == "slate_BradleyTerry" and rnd.random() < 0.3:
        case["entry"] = "mcmc"
    if rnd.random() < 0.25:
        case["warmup"] = rnd.choice([1, 2, 5])
    if rnd.random() < 0.35:
        case["decoy"] = rnd.choice(["build", "use"])
    return case


def run(ctx):
    rnd = ctx.rnd
    # frequency tests: spread over shards
    Nf = 20000 if ctx.quick else 200000
    for j, t in enumerate(FREQ_TESTS):
        if j % ctx.nshards == ctx.shard:
            ctx.guard("freq", check_freq, ctx, {"kind": "freq", "test": t, "N": Nf, "seed": ctx.seed * 7919 + j})
    for i in range(ctx.n(1600, 30000)):
        if ctx.expired():
            break
        ctx.guard("law", check_law, ctx, gen_law_case(rnd, i + ctx.shard))
        if i % 8 == 0:
            # four and five slates too: the renormalisation after the SECOND used-up slate only shows there
            k = rnd.choice([1, 2, 2, 3, 3, 4, 4, 5])
            names = ["W", "C", "X", "Y", "Z"][:k]
            sizes = {s: rnd.randint(1, 3 if k < 3 else 2) if k < 4 else 1 for s in names}
            if k == 4 and rnd.random() < 0.4:
                sizes[rnd.choice(names)] = 2
            cohv = bp.split_unit(rnd, k)
            ctx.guard("types", check_slate_types, ctx, {"kind": "types", "sizes": sizes, "cohesion": dict(zip(names, cohv))})
        if i % 8 == 1:
            p = bp.gen_params(rnd, nblocs=rnd.choice([1, 2, 2]), max_slate=2)
            ctx.guard("bt", check_bt_tables, ctx, {"kind": "bt", "params": p, "N": rnd.choice([1, 4, 8]), "seed": rnd.randrange(10 ** 6),
                                                         "decoy": rnd.choice([None, "build", "use"])})
        if i % 16 == 2:
            p = bp.gen_params(rnd, nblocs=rnd.choice([1, 2]), max_slate=2, extremes=rnd.random() < 0.3)
            ctx.guard("kernel_nbt", check_kernel_name_bt, ctx, {"kind": "kernel_nbt", "params": p})
        if i % 16 == 3:
            p = bp.gen_params(rnd, nblocs=2, max_slate=2, extremes=rnd.random() < 0.3)
            ctx.guard("kernel_sbt", check_kernel_slate_bt, ctx, {"kind": "kernel_sbt", "params": p})
        if i % 16 in (5, 13):
            mdl = "name_BradleyTerry" if i % 16 == 5 else "slate_BradleyTerry"
            p = bp.gen_params(rnd, nblocs=2 if mdl == "slate_BradleyTerry" else rnd.choice([1, 2, 2, 3]), max_slate=2,
                              extremes=mdl == "name_BradleyTerry" and rnd.random() < 0.2)
            ctx.guard("chain", check_chain, ctx, {"kind": "chain", "model": mdl, "params": p, "N": rnd.choice([2, 5, 9, 17, 40]),
                                                  "seed": rnd.randrange(10 ** 6)})
        if i % 16 == 4:
            cs = [f"k{j}" for j in range(rnd.randint(1, 4))]
            ctx.guard("ic", check_ic, ctx, {"kind": "ic", "candidates": cs, "N": rnd.choice([1, 5]), "seed": rnd.randrange(10 ** 6)})
        if i % 4 == 1:
            model = rnd.choice(bp.SPATIAL_MODELS)
            cs = [f"k{j}" for j in range(rnd.randint(1, 5))]
            c = {"kind": "spatial", "model": model, "params": {"candidates": cs, "dim": rnd.choice([1, 2, 3]),
                                                              "distance": rnd.choice(["euclid", "directional"])},
                 "N": rnd.choice([1, 5, 20]),
                 "seed": rnd.randrange(10 ** 6)}
            if model == "ClusteredSpatial":
                c["by_cand"] = {x: rnd.randint(0, 3) for x in cs}
                c["by_cand"][cs[0]] = max(1, c["by_cand"][cs[0]])
            if rnd.random() < 0.3:
                c["warmup"] = rnd.choice([1, 3])
            ctx.guard("spatial", check_spatial, ctx, c)


def post(results, fails, counters):
    res = [x for r in results for x in r["extra"].get("kernel_residuals", [])]
    freq = [x for r in results for x in r["extra"].get("freq", [])]
    return {"coverage": {"max_detailed_balance_residual": max(res) if res else None, "kernels_extracted": len(res),
                         "frequency_tests": freq}}


def replay(ctx, case):
    KINDS[case["kind"]](ctx, case)
