import sys, time, random, itertools, io, contextlib
sys.path[:0] = ['/repo/src', __import__('os').path.join(__import__('os').path.dirname(__import__('os').path.abspath(__file__)) if '__file__' in globals() else '.', 'shim')]
from fractions import Fraction as F
from votekit import Ballot, PreferenceProfile
from votekit.elections import *
from votekit.graphs import PairwiseComparisonGraph
random.seed(2)
def rprof(n, nb, wmax=3):
    cands = [chr(65+i) for i in range(n)]
    bl=[]
    for _ in range(nb):
        k = random.randint(1,n)
        r = random.sample(cands,k)
        bl.append(Ballot(ranking=tuple(frozenset([c]) for c in r), weight=F(random.randint(1,wmax), random.choice([1,1,2,3]))))
    return PreferenceProfile(ballots=tuple(bl), candidates=tuple(cands))
def margin(p, a, b):
    m = F(0)
    for bal in p.ballots:
        pos = {c:i for i,s in enumerate(bal.ranking) for c in s}
        if a in pos and b in pos: m += bal.weight if pos[a]<pos[b] else -bal.weight
        elif a in pos: m += bal.weight
        elif b in pos: m -= bal.weight
    return m
def tiers(p):
    C = list(p.candidates); out=[]
    rest=set(C)
    while rest:
        best=None
        for k in range(1,len(rest)+1):
            for S in itertools.combinations(sorted(rest),k):
                S=set(S)
                if all(margin(p,a,b)>0 for a in S for b in rest-S):
                    best=S;break
            if best: break
        out.append(best); rest-=best
    return out
bad=0
for it in range(400):
    n=random.randint(1,5); p=rprof(n, random.randint(1,6))
    g=PairwiseComparisonGraph(p)
    got=[set(s) for s in g.dominating_tiers()]
    exp=tiers(p)
    if got!=exp:
        bad+=1; print('TIERS DIFF', [(b.ranking,b.weight) for b in p.ballots], got, exp)
    # margins
    for a,b in itertools.permutations(p.candidates,2):
        m=margin(p,a,b)
        d=g.pairwise_dict
        if m>0:
            if d.get((a,b))!=m or (b,a) in d: bad+=1; print('MARGIN DIFF', a,b,m,d.get((a,b)), d.get((b,a)))
        elif m==0:
            if d.get((a,b))!=0 or d.get((b,a))!=0: bad+=1; print('TIE DIFF')
print('bad',bad)
