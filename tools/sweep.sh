#!/bin/sh
# tools/sweep.sh <tier> <seed>...   run every check under the given seeds; print one line per run
cd "$(dirname "$0")/.." || exit 2
tier=$1; shift
for seed in "$@"; do
  for i in 01 02 03 04 05 06 07 08 09 10 11 12 13 14 15 16 17 18 19 20; do
    out=$(VERIF_SEED=$seed ./check C$i $tier 2>&1); rc=$?
    echo "seed=$seed C$i rc=$rc $(echo "$out" | grep -c '^VIOLATION') violations; $(echo "$out" | grep '^INCONCLUSIVE' | head -2 | cut -c1-200)"
    echo "$out" | grep '^VIOLATION' | head -5
  done
done
