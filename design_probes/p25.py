import sys, random, itertools, io, contextlib, collections, json, os, traceback
sys.path[:0] = ['/repo/src', __import__('os').path.join(__import__('os').path.dirname(__import__('os').path.abspath(__file__)) if '__file__' in globals() else '.', 'shim')]
exec(open('p12.py').read().split("rules = {")[0])
from votekit.elections import fractional_transfer
cnt=collections.Counter()
def reduce(cands, bl, keep):
    out=[]
    for r,w in bl:
        r2=tuple(c for c in r if c in keep)
        if r2: out.append((r2,w))
    return [c for c in cands if c in keep], out
def fullweight(winner,fpv,ballots,threshold):
    d=collections.defaultdict(F)
    for b in ballots:
        r=tuple(s for s in b.ranking if s!=frozenset([winner]))
        if r: d[r]+=b.weight
    return tuple(Ballot(ranking=r,weight=w) for r,w in d.items())
def run(f):
    try:
        with contextlib.redirect_stdout(io.StringIO()), Tap() as t:
            e=f()
        return ('R' if t.draws else 'D'), e
    except ValueError: return 'V', None
    except BaseException as ex: return 'X'+type(ex).__name__, None
for it in range(500):
    n=rnd.randint(2,5); cands,bl=rprof(n, rnd.randint(1,6), tie_bias=(it%2==0))
    p=mk(cands,bl)
    m2=rnd.randint(1,n); m1=rnd.randint(m2,n)
    quota=rnd.choice(['droop','hare']); sim=rnd.random()<0.5
    # IRV vs STV(1)
    a,e1=run(lambda: IRV(p,quota=quota)); b,e2=run(lambda: STV(p,m=1,quota=quota))
    if a=='D' and b=='D' and canon(e1)!=canon(e2): cnt['IRV diff']+=1
    cnt[('IRV',a,b)]+=0
    a,e1=run(lambda: SNTV(p,m=m2)); b,e2=run(lambda: Plurality(p,m=m2))
    if a=='D' and b=='D' and canon(e1)!=canon(e2): cnt['SNTV diff']+=1
    a,e1=run(lambda: SequentialRCV(p,m=m2,quota=quota,simultaneous=sim)); b,e2=run(lambda: STV(p,m=m2,quota=quota,simultaneous=sim,transfer=fullweight))
    if a=='D' and b=='D' and canon(e1)!=canon(e2): cnt['SeqRCV diff']+=1
    elif a!=b: cnt[('SeqRCV status',a,b)]+=1
    # Alaska
    a,e1=run(lambda: Alaska(p,m_1=m1,m_2=m2,quota=quota,simultaneous=sim))
    s,pl=run(lambda: Plurality(p,m=m1))
    if s=='D':
        keep={c for g in pl.get_elected() for c in g}
        c2,b2=reduce(cands,bl,keep)
        if b2:
            b,e2=run(lambda: STV(mk(c2,b2),m=m2,quota=quota,simultaneous=sim))
            if a=='D' and b=='D':
                A=canon(e1); B=canon(e2)
                if [x['rn'] for x in A]!=list(range(len(A))): cnt['Alaska numbering']+=1
                strip=lambda x:{k:v for k,v in x.items() if k!='rn'}
                if [strip(x) for x in A[2:]]!=[strip(x) for x in B[1:]]: cnt['Alaska stage2 diff']+=1
                if A[1]['sc']!=B[0]['sc'] : cnt['Alaska stage1 scores diff']+=1
                cnt['Alaska compared']+=1
            elif a!=b: cnt[('Alaska status',a,b)]+=1
    # TopTwo
    a,e1=run(lambda: TopTwo(p))
    fp={c:F(0) for c in cands}
    for r,w in bl: fp[r[0]]+=w
    order=sorted(cands,key=lambda c:-fp[c])
    if n>=2:
        tie1 = n>2 and fp[order[1]]==fp[order[2]]
        top=set(order[:2]); c2,b2=reduce(cands,bl,top)
        f2={c:F(0) for c in c2}
        for r,w in b2: f2[r[0]]+=w
        tie2=f2[order[0]]==f2[order[1]]
        if tie1 or tie2:
            if a!='V': cnt[('TopTwo expected ValueError got',a)]+=1
        else:
            win=max(c2,key=lambda c:f2[c])
            if a!='D': cnt[('TopTwo expected result got',a)]+=1
            elif {c for g in e1.get_elected() for c in g}!={win}: cnt['TopTwo winner diff']+=1
            else: cnt['TopTwo ok']+=1
for k,v in sorted(cnt.items(),key=str): print(k,v)
