"""Path bootstrap: make `import votekit` resolve to the working tree under test.

The pinned /venv has the votekit wheel in site-packages, so a plain import would
test the wrong code.  Every worker calls bootstrap() first; if the import does
not come from REPO_SRC the run is inconclusive (never 'held').
"""
import os
import sys

sys.dont_write_bytecode = True

VERIF = os.path.dirname(os.path.dirname(os.path.abspath(__file__)))
REPO = os.environ.get("VK_REPO", "/repo")
REPO_SRC = os.environ.get("VK_REPO_SRC", os.path.join(REPO, "src"))
SHIMS = os.path.join(VERIF, "shims")
PYTHON = os.environ.get("VK_PYTHON", "/venv/bin/python")


class OriginError(Exception):
    pass


def bootstrap():
    if hasattr(sys, "set_int_max_str_digits"):
        sys.set_int_max_str_digits(0)  # canonical forms print exact rationals whose denominators can exceed 4300 digits
    for p in (SHIMS, REPO_SRC):
        if p in sys.path:
            sys.path.remove(p)
    sys.path[:0] = [REPO_SRC, SHIMS]
    import warnings

    warnings.filterwarnings("ignore")
    import votekit  # noqa

    here = os.path.realpath(votekit.__file__)
    if not here.startswith(os.path.realpath(REPO_SRC) + os.sep):
        raise OriginError(f"votekit imported from {here}, not from {REPO_SRC}")
    return votekit


def workdir():
    d = os.path.join(VERIF, ".work", str(os.getpid()))
    os.makedirs(d, exist_ok=True)
    return d
