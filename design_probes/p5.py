import sys, traceback, warnings
sys.path[:0] = ['/repo/src', __import__('os').path.join(__import__('os').path.dirname(__import__('os').path.abspath(__file__)) if '__file__' in globals() else '.', 'shim')]
import numpy as np, random
import votekit.ballot_generator as bg
from votekit.pref_interval import PreferenceInterval as PI
def params(zero=False, coh=(0.7,0.9), props=(0.7,0.3), sizes=(2,2)):
    W = [f'W{i}' for i in range(1,sizes[0]+1)]; C=[f'C{i}' for i in range(1,sizes[1]+1)]
    def iv(cs, z):
        d = {c: 1.0/(i+1) for i,c in enumerate(cs)}
        if z and len(cs)>1: d[cs[-1]] = 0.0
        return PI(d)
    return dict(slate_to_candidates={'W':W,'C':C},
        pref_intervals_by_bloc={'W':{'W':iv(W,zero),'C':iv(C,False)},'C':{'W':iv(W,False),'C':iv(C,zero)}},
        bloc_voter_prop={'W':props[0],'C':props[1]},
        cohesion_parameters={'W':{'W':coh[0],'C':1-coh[0]},'C':{'C':coh[1],'W':1-coh[1]}})
def summ(pp):
    return [( tuple(tuple(sorted(s)) for s in b.ranking) if b.ranking else None, dict(b.scores) if b.scores else None, str(b.weight)) for b in pp.ballots][:4], str(pp.total_ballot_wt)
classes = [('nPL',bg.name_PlackettLuce,{}),('nBT',bg.name_BradleyTerry,{}),('AC',bg.AlternatingCrossover,{}),('CS',bg.CambridgeSampler,{}),('nC',bg.name_Cumulative,{'num_votes':3}),('sPL',bg.slate_PlackettLuce,{}),('sBT',bg.slate_BradleyTerry,{}),('snPL',bg.short_name_PlackettLuce,{'ballot_length':2})]
for label, kw in [('base',{}),('zero',{'zero':True}),('coh1',{'coh':(1.0,0.9)}),('coh0',{'coh':(0.0,0.9)}),('prop0',{'props':(1.0,0.0)}),('sizes31',{'sizes':(3,1)}),('sizes32zero',{'sizes':(3,2),'zero':True})]:
    for name, cls, extra in classes:
        for N in (1, 7):
            try:
                p = params(**kw)
                g = cls(**p, **extra)
                r = g.generate_profile(N, by_bloc=True)
                bb, pp = r
                tot = sum(x.total_ballot_wt for x in bb.values())
                print(label, name, N, 'OK', summ(pp), 'blocsum', tot, {k:str(v.total_ballot_wt) for k,v in bb.items()})
            except BaseException as e:
                print(label, name, N, 'EXC', type(e).__name__, str(e)[:100])
        if name in ('nBT',):
            try:
                print(label, name, 'MCMC', summ(g.generate_profile_MCMC(7)))
            except BaseException as e:
                print(label, name, 'MCMC EXC', type(e).__name__, str(e)[:100])
        if name in ('sBT',):
            try:
                print(label, name, 'MCMC', summ(g.generate_profile(7, deterministic=False)))
            except BaseException as e:
                print(label, name, 'MCMC EXC', type(e).__name__, str(e)[:100])
