"""C08 — neutrality, anonymity, representation- and hash-seed independence."""
from fractions import Fraction as F

from .. import canon, cases, rules, rng, gen
from ..core import observe

DET_RULES = ["STV", "IRV", "SequentialRCV", "Plurality", "SNTV", "Borda", "TopTwo", "Alaska", "DominatingSets",
             "CondoBorda"] + rules.SCORE_RULES
UTILS = ["first_place_votes", "borda_scores", "mentions", "vector"]

META = {
    "level": "exploration",
    "rule": ("base cases = (deterministic rule configuration | scoring utility, generated profile); for each base whose "
             "execution consumed no randomness (RNG tap) six variants are run: rename by a bijection, permute ballots, "
             "split a ballot into 2-4 equal-content ballots, merge identical ballots, permute profile.candidates, and "
             "the same shard re-executed in separate processes under several PYTHONHASHSEED values (byte-compared "
             "canonical outcomes). distinct = hash(base, variant); non-trivial = n>=3, >=3 distinct ballots, "
             "non-identity transformation."),
    "assumptions": ["deterministic path = the tapped execution drew nothing from random / numpy.random"],
    "nshards": {"quick": 4, "thorough": 4},
    "hashseeds": {"quick": [0, 1, 2, 3], "thorough": [0, 1, 2, 3, 5, 7, 11, 13, 17, 101, 1234, 4242, 31337, 65535, 99991, 4294967295]},
    "min_obs": {"all": {"pairs_compared": 2000, "rename_pairs": 300, "split_pairs": 300, "candorder_pairs": 300,
                        "hashseed_outcomes": 2000, "util_pairs": 300, "candsomitted_pairs": 100, "hashseed_pairs_compared": 1500}},
}

NAMEPOOL = list(dict.fromkeys(gen.NAMES + gen.PLAIN + ["zz", "0", "Á", "~"]))


def rename_spec(spec, pi):
    def rb(b):
        d = dict(b)
        if d.get("r") is not None:
            d["r"] = [[pi[c] for c in g] for g in d["r"]]
        if d.get("s") is not None:
            d["s"] = {pi[c]: v for c, v in d["s"].items()}
        return d

    return {"cands": [pi[c] for c in spec["cands"]], "ballots": [rb(b) for b in spec["ballots"]]}


def variants(rnd, spec):
    """yield (kind, spec', rename map or None)"""
    cs = spec["cands"]
    bl = spec["ballots"]
    # (i) rename
    new = rnd.sample(NAMEPOOL, len(cs))
    pi = dict(zip(cs, new))
    yield "rename", rename_spec(spec, pi), pi
    # reversed sort order rename
    srt = sorted(cs)
    pi2 = dict(zip(srt, srt[::-1]))
    if len(cs) > 1:
        yield "rename", rename_spec(spec, pi2), pi2
    # (ii) permute ballots
    b2 = list(bl)
    rnd.shuffle(b2)
    yield "perm", {"cands": cs, "ballots": b2}, None
    yield "perm", {"cands": cs, "ballots": bl[::-1]}, None
    # (iii) split
    if bl:
        b3 = [dict(b) for b in bl]
        i = rnd.randrange(len(b3))
        w = canon.pf(b3[i]["w"])
        k = rnd.randint(2, 4)
        parts = [w / k] * k if rnd.random() < 0.5 else [w * F(1, 2)] + [w * F(1, 2 * (k - 1))] * (k - 1)
        pieces = []
        for p in parts:
            d = dict(b3[i])
            d["w"] = canon.fs(p)
            pieces.append(d)
        b3[i] = pieces[0]
        for d in pieces[1:]:
            b3.insert(rnd.randint(0, len(b3)), d)
        yield "split", {"cands": cs, "ballots": b3}, None
    # (iv) merge identical ballots
    seen = {}
    order = []
    for b in bl:
        key = canon.jhash([b.get("r"), b.get("s")])
        if key in seen:
            seen[key]["w"] = canon.fs(canon.pf(seen[key]["w"]) + canon.pf(b["w"]))
        else:
            seen[key] = dict(b)
            order.append(key)
    yield "merge", {"cands": cs, "ballots": [seen[k] for k in order]}, None
    # (v) permute candidates tuple
    c2 = list(cs)
    rnd.shuffle(c2)
    yield "candorder", {"cands": c2, "ballots": bl}, None
    yield "candorder", {"cands": cs[::-1], "ballots": bl}, None
    # (v') no candidate list at all: the profile derives it from the ballots (only comparable when every candidate is cast)
    pos = [b for b in bl if canon.pf(b["w"]) > 0]  # a candidate who is only on zero-weight ballots is not "cast"
    cast = {c for b in pos for g in (b.get("r") or []) for c in g} | {c for b in pos for c in (b.get("s") or {})}
    if cast == set(cs):
        yield "candsomitted", {"cands": None, "ballots": bl}, None


def run_election(cfg, spec):
    prof = canon.build_profile(spec)
    return rng.tap(lambda: rules.run(cfg, prof)[0], raw=True)


def outcome_sig(out, ren=None):
    if out.ok:
        e = out.value
        return {"ok": canon.outcome_c(e, ren), "threshold": canon.fs(e.threshold) if hasattr(e, "threshold") else None}
    return {"exc": out.etype}


def util_call(which, spec, vec):
    import votekit.utils as U

    prof = canon.build_profile(spec)
    if which == "vector":
        return observe(U.score_profile_from_rankings, prof, [canon.pf(v) for v in vec])
    if which == "pairwise":
        # the pairwise comparison graph as a per-candidate summary: (dominating tier, summed winning margins); `vec` carries
        # the optional ballot_length argument
        def summary():
            from votekit.graphs import PairwiseComparisonGraph
            g = PairwiseComparisonGraph(prof) if vec is None else PairwiseComparisonGraph(prof, ballot_length=vec)
            tier = {c: i for i, t in enumerate(g.dominating_tiers()) for c in t}
            won = {c: F(0) for c in spec["cands"]}
            for (a, b), w in g.pairwise_dict.items():
                won[a] += F(w)
            return {c: F(tier[c] * 10 ** 6) + won[c] for c in spec["cands"]}
        return observe(summary)
    return observe(getattr(U, which), prof)


def check_case(ctx, case, vlist=None):
    cfg, spec = case.get("cfg"), case["profile"]
    rnd = ctx.sub_rnd(canon.jhash(case))
    n = len(spec["cands"])
    nd = len({canon.jhash([b.get("r"), b.get("s")]) for b in spec["ballots"]})
    if cfg is not None:
        out, r = run_election(cfg, spec)
        if isinstance(out.exc, rules.RoundBudget):
            return
        if r.draws:
            ctx.count("base_random_skipped")
            # whether a count meets a genuine tie does not depend on the hash seed: remember that this case drew
            ctx.extra.setdefault("outcomes", {})[canon.jhash(case)] = "consumed-randomness"
            return
        base_sig = lambda ren: outcome_sig(out, ren)  # noqa
        ctx.extra.setdefault("outcomes", {})[canon.jhash(case)] = canon.jhash(outcome_sig(out))
        if ctx.hashseed in (None, "0"):
            ctx.extra.setdefault("cases", {})[canon.jhash(case)] = case
        ctx.count("hashseed_outcomes")
    else:
        out = util_call(case["util"], spec, case.get("vector"))
        base_sig = lambda ren: ({"ok": canon.scores_c(out.value, ren)} if out.ok else {"exc": out.etype})  # noqa
        ctx.extra.setdefault("outcomes", {})[canon.jhash(case)] = canon.jhash(base_sig(None))
        if ctx.hashseed in (None, "0"):
            ctx.extra.setdefault("cases", {})[canon.jhash(case)] = case
        ctx.count("hashseed_outcomes")
    for kind, vs, pi in (vlist if vlist is not None else variants(rnd, spec)):
        if kind == "candsomitted" and cfg is None and case["util"] == "pairwise":
            continue
        ident = (vs == spec)
        ctx.case({"base": case, "variant": kind, "vspec": vs}, nontrivial=n >= 3 and nd >= 3 and not ident)
        if cfg is not None:
            o2, r2 = run_election(cfg, vs)
            if r2.draws:
                ctx.fail(f"{cfg['rule']}: variant '{kind}' of a deterministic run consumed randomness",
                         {"base": case, "variant": kind, "vspec": vs, "pi": pi}, {"events": [e["prim"] for e in r2.events][:5]})
                continue
            sig2 = outcome_sig(o2)
        else:
            o2 = util_call(case["util"], vs, case.get("vector"))
            sig2 = {"ok": canon.scores_c(o2.value)} if o2.ok else {"exc": o2.etype}
            ctx.count("util_pairs")
        ctx.count("pairs_compared")
        ctx.count(kind + "_pairs")
        if kind == "candsomitted":
            # the derived candidate list comes out of a set: its outcome is also compared across hash seeds
            ctx.extra.setdefault("outcomes", {})[canon.jhash(case) + ":candsomitted"] = canon.jhash(sig2)
        exp = base_sig(pi)
        if exp != sig2:
            what = (cfg["rule"] if cfg else case["util"]) + f": outcome changes under '{kind}'"
            ctx.fail(what, {"base": case, "variant": kind, "vspec": vs, "pi": pi}, {"base_outcome": exp, "variant_outcome": sig2})


def gen_case(rnd, i, maxn):
    if i % 5 == 4:
        spec = gen.ranked(rnd, ties=rnd.random() < 0.6, maxn=maxn)
        which = rnd.choice(UTILS + ["pairwise"])
        vec = None
        if which == "pairwise":
            spec = gen.ranked(rnd, ties=False, maxn=min(maxn, 5))
            vec = rnd.choice([None, None] + list(range(1, len(spec["cands"]) + 2)))  # ballot_length: default, 1 .. n+1
        if which == "vector":
            n = len(spec["cands"])
            vec = [canon.fs(F(v)) for v in sorted([rnd.choice([0, 1, 2, 3, F(1, 2), F(7, 3)]) for _ in range(rnd.randint(1, n + 1))], reverse=True)]
        return {"util": which, "profile": spec, "vector": vec}
    rule = DET_RULES[i % len(DET_RULES)]
    c = cases.any_case(rnd, rule, maxn=min(maxn, 6) if rule in rules.PAIRWISE else maxn)
    if c["cfg"].get("transfer") == "random":
        c["cfg"]["transfer"] = "fractional"
    if c["cfg"].get("tiebreak") == "random" and rnd.random() < 0.7:
        c["cfg"]["tiebreak"] = rnd.choice([None, "borda", "first_place"]) if rule not in rules.SCORE_RULES else None
    return {"cfg": c["cfg"], "profile": c["profile"]}


def partial_tie_case(rnd):
    """A three-way tie for last place in a LATER round which the initial first-place votes only half resolve ({X} above {Y, Z}):
    a correct count draws the order of Y and Z at random (so the case is set aside as random); a count that picks one of
    them without drawing is judged here like any deterministic run - under renaming and across hash seeds."""
    x, y, z, p_ = rnd.sample(NAMEPOOL, 4)
    k = rnd.randint(1, 3)
    B = lambda r, w: canon.spec_ballot(r=[[c] for c in r], w=w)  # noqa
    bl = [B([x, y, z], 4 * k), B([y, z, x], 3 * k), B([z, y, x], 3 * k), B([p_, y], k), B([p_, z], k)]
    rnd.shuffle(bl)
    rule = rnd.choice(["IRV", "STV", "SequentialRCV"])
    cfg = {"rule": rule, "quota": "droop", "tiebreak": rnd.choice(["random", "borda", "first_place"])}
    if rule != "IRV":
        cfg.update(m=1, sim=True)
    if rule == "STV":
        cfg["transfer"] = "fractional"
    return {"cfg": cfg, "profile": canon.spec_profile(rnd.sample([x, y, z, p_], 4), bl)}


def run(ctx):
    maxn = 6 if ctx.quick else 7
    for i in range(ctx.n(2400, 16000)):
        if ctx.expired():
            break
        ctx.guard("check", check_case, ctx, gen_case(ctx.rnd, i, maxn))
        if i % 40 == 3:
            ctx.count("half_resolved_elimination_tie_cases")
            ctx.guard("check", check_case, ctx, partial_tie_case(ctx.rnd))


def post(results, fails, counters):
    """(vi) the same shard under different PYTHONHASHSEED values must give byte-identical outcomes"""
    by_shard = {}
    for r in results:
        by_shard.setdefault(r["shard"], []).append(r)
    compared = 0
    for sh, rs in by_shard.items():
        rs.sort(key=lambda r: r["hashseed"])
        base = rs[0]["extra"].get("outcomes", {})
        for r in rs[1:]:
            o = r["extra"].get("outcomes", {})
            # only cases both runs reached are compared: under load a worker may stop at its soft deadline
            for k in set(base) & set(o):
                compared += 1
                if base[k] != o[k]:
                    rand = "consumed-randomness" in (base[k], o[k])
                    fails.append({"mech": None, "what": (f"a count draws random numbers under one of PYTHONHASHSEED={rs[0]['hashseed']} and {r['hashseed']} only"
                                                         if rand else f"outcome differs between PYTHONHASHSEED={rs[0]['hashseed']} and {r['hashseed']}"),
                                  "case": {"hashseed_case": rs[0]["extra"].get("cases", {}).get(k.split(":")[0]), "shard": sh, "case_hash": k,
                                           "hashseeds": [rs[0]["hashseed"], r["hashseed"]]},
                                  "detail": {"a": base.get(k), "b": o.get(k)}})
    counters["hashseed_pairs_compared"] = compared
    return {"coverage": {"hashseed_pairs_compared": compared}}


def _sig_of(case):
    if case.get("cfg") is not None:
        out, r = run_election(case["cfg"], case["profile"])
        return canon.jhash(outcome_sig(out))
    out = util_call(case["util"], case["profile"], case.get("vector"))
    return canon.jhash({"ok": canon.scores_c(out.value)} if out.ok else {"exc": out.etype})


def replay(ctx, case):
    if "base" in case:
        check_case(ctx, case["base"], vlist=[(case["variant"], case["vspec"], case.get("pi"))])
    elif case.get("hashseed_case"):
        # re-execute the one case in fresh interpreters under the two hash seeds and compare
        import json
        import os
        import subprocess
        from .. import env

        sigs = {}
        for hs in case["hashseeds"]:
            code = ("import sys, json; sys.path.insert(0, %r); from vk import env; env.bootstrap(); from vk.mon import c08; "
                    "print('SIG', c08._sig_of(json.loads(sys.stdin.read())))" % env.VERIF)
            r = subprocess.run([env.PYTHON, "-c", code], input=json.dumps(case["hashseed_case"]), capture_output=True, text=True,
                               env=dict(os.environ, PYTHONHASHSEED=str(hs), PYTHONDONTWRITEBYTECODE="1"), cwd=env.VERIF, timeout=600)
            sigs[hs] = [ln for ln in r.stdout.splitlines() if ln.startswith("SIG")][-1:] or [r.stderr[-300:]]
        ctx.case(case, nontrivial=True)
        if len({str(v) for v in sigs.values()}) > 1:
            ctx.fail(f"outcome differs between PYTHONHASHSEED={case['hashseeds'][0]} and {case['hashseeds'][1]}", case, {"sigs": sigs})
    else:
        ctx.count("hashseed_replay_not_supported")
