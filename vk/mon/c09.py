"""C09 — round-by-round queries on a finished election are consistent and pure."""
from fractions import Fraction as F

from .. import canon, cases, rules, rng, oracle
from ..core import observe

QUERIES = ["get_profile", "get_step", "get_elected", "get_eliminated", "get_remaining", "get_ranking", "get_status_df",
           "len", "str"]

META = {
    "level": "exploration",
    "rule": ("cases = (finished election of any of the 18 rules, generated query sequence of 12-60 calls with repetition, "
             "positive / negative / out-of-range indices). Monitors: canonical snapshot of recorded rounds, initial profile "
             "and scalar attributes before/after every query (purity); for elections built without consuming randomness: "
             "profile-of-round candidates = remaining, re-scoring = recorded tallies, cumulative getters = fold of records, "
             "status table, negative = non-negative index, out of range -> IndexError, repeated query -> equal answer. "
             "distinct = hash(case); non-trivial = >=3 rounds, >=3 distinct rounds queried, a negative index."),
    "assumptions": ["consistency clauses are judged only for elections whose construction drew no randomness (as the statement says); purity for all"],
    "min_obs": {"all": {"elections": 300, "queries": 5000, "deterministic_elections": 150, "profile_replays_checked": 500,
                        "negative_index_pairs": 300, "out_of_range_checked": 300, "snapshots_compared": 5000,
                        "default_election_replays": 5}},
}


def snap(e):
    d = {}
    for k, v in e.__dict__.items():
        if k.startswith("_vk"):
            continue
        if k == "election_states":
            d[k] = canon.outcome_c(e)
        elif k == "_profile":
            d[k] = canon.profile_c(v)
        elif isinstance(v, (int, str, bool, F, float)) or v is None:
            d[k] = canon.fs(v) if isinstance(v, (F, float)) else v
        elif isinstance(v, (list, tuple)) and all(isinstance(x, (int, str, F)) for x in v):
            d[k] = [str(x) for x in v]
        elif isinstance(v, dict) and all(isinstance(x, (bool, int, str, F)) for x in v.values()):
            d[k] = sorted((str(a), str(b)) for a, b in v.items())
        elif k == "ballot_list":
            d[k] = [[canon.groups(b.ranking or ()), str(b.weight)] for b in v]
    return canon.jhash(d), d


def gen_queries(rnd, nstates, length):
    qs = []
    for _ in range(length):
        m = rnd.choice(QUERIES[:7] if rnd.random() < 0.95 else QUERIES[7:])
        t = rnd.random()
        if t < 0.55:
            i = rnd.randrange(nstates)
        elif t < 0.85:
            i = -rnd.randint(1, nstates)
        elif t < 0.93:
            i = nstates + rnd.randint(0, 2)
        else:
            i = -nstates - rnd.randint(1, 2)
        qs.append([m, i])
        if rnd.random() < 0.2 and qs:
            qs.append(list(rnd.choice(qs)))  # repetition
    return qs


def fold_elected(st, r):
    return [g for s in st[: r + 1] for g in s.elected if len(g)]


def fold_eliminated(st, r):
    return [g for s in st[r::-1] for g in s.eliminated[::-1] if len(g)]


def answer_c(method, val):
    """canonical form of a query answer"""
    if method in ("get_elected", "get_eliminated", "get_remaining", "get_ranking"):
        return canon.groups(val)
    if method == "get_profile":
        return canon.profile_c(val)
    if method == "get_step":
        return [canon.profile_c(val[0]), canon.state_c(val[1])]
    if method == "get_status_df":
        return [[str(i), str(row["Status"]), int(row["Round"])] for i, row in val.iterrows()]
    return str(val)


def check_case(ctx, case):
    cfg, spec = case["cfg"], case["profile"]
    cands, ballots = canon.plain(spec)
    prof = canon.build_profile(spec)
    r0 = rng.Rng("tap", seed=case.get("seed", 0))
    with r0:
        out = rules.run(cfg, prof, transfer_override=rules.full_weight_transfer if case.get("full_weight") else None)[0]
    if not out.ok:
        ctx.count("constructor_raised_skipped")
        return
    e = out.value
    st = e.election_states
    ns = len(st)
    det = r0.draws == 0
    ctx.count("elections")
    if det:
        ctx.count("deterministic_elections")
    qs = case.get("queries") or gen_queries(ctx.sub_rnd(canon.jhash([cfg, spec])), ns, case.get("qlen", 14))
    case = dict(case)
    case["queries"] = qs
    rule = cfg["rule"]
    h0, s0 = snap(e)
    seen = {}
    rounds_touched = set()
    neg = False
    mech = lambda: "pv-replay" if rule == "PluralityVeto" else None  # noqa
    for qi, (method, idx) in enumerate(qs):
        ctx.count("queries")
        inrange = -ns <= idx < ns
        rr = rng.Rng("tap", seed=case.get("seed", 0) + qi + 1)
        with rr:
            if method == "len":
                o = observe(len, e)
            elif method == "str":
                o = observe(str, e)
            else:
                o = observe(getattr(e, method), idx)
        h1, s1 = snap(e)
        ctx.count("snapshots_compared")
        if h1 != h0:
            diff = [k for k in s1 if s1.get(k) != s0.get(k)]
            ctx.fail(f"{rule}: query {method}({idx}) changed the election's recorded state ({diff})", case,
                     {"query": [method, idx], "changed": diff}, mech=mech())
            return
        if method in ("len", "str"):
            if not o.ok:
                ctx.fail(f"{rule}: {method}() raised {o.etype}", case, {"msg": str(o.exc)[:200]}, mech=mech())
                return
            if method == "len" and o.value != ns - 1:
                ctx.fail(f"{rule}: len() is not the number of rounds", case, {"len": o.value, "states": ns})
                return
            continue
        if not inrange:
            ctx.count("out_of_range_checked")
            if o.ok or o.etype != "IndexError":
                ctx.fail(f"{rule}: {method}({idx}) out of range did not raise IndexError", case, {"got": repr(o)[:200]})
                return
            continue
        r = idx % ns
        rounds_touched.add(r)
        neg = neg or idx < 0
        if not o.ok:
            if method in ("get_profile", "get_step") and not det:
                ctx.count("random_replay_exception_logged_" + o.etype)
                continue
            ctx.fail(f"{rule}: {method}({idx}) raised {o.etype} on a finished election", case,
                     {"msg": str(o.exc)[:200], "tb": (o.tb or "")[-700:], "deterministic": det}, mech=mech())
            return
        if not det:
            continue
        try:
            ans = answer_c(method, o.value)
        except Exception:
            ctx.harness_error("answer_c")
            return
        # negative index / repetition: equal answers for the same (method, round)
        key = (method, r)
        if key in seen:
            if idx < 0 or seen[key][1] < 0:
                ctx.count("negative_index_pairs")
            if seen[key][0] != ans:
                ctx.fail(f"{rule}: {method} gives different answers for the same round (index {seen[key][1]} vs {idx})",
                         case, {"first": seen[key][0], "second": ans})
                return
        else:
            seen[key] = (ans, idx)
        # consistency with the per-round records
        exp = None
        if method == "get_elected":
            exp = canon.groups(fold_elected(st, r))
        elif method == "get_eliminated":
            exp = canon.groups(fold_eliminated(st, r))
        elif method == "get_remaining":
            exp = canon.groups(st[r].remaining)
        elif method == "get_ranking":
            exp = canon.groups(fold_elected(st, r) + [g for g in st[r].remaining if len(g)] + fold_eliminated(st, r))
        if exp is not None and exp != ans:
            ctx.fail(f"{rule}: {method}({idx}) disagrees with the per-round records", case, {"got": ans, "exp": exp})
            return
        if method == "get_status_df":
            order = [c for g in fold_elected(st, r) + [g for g in st[r].remaining if len(g)] + fold_eliminated(st, r) for c in g]
            status = {}
            for i2 in range(1, r + 1):
                for g in st[i2].elected:
                    for c in g:
                        status[c] = ("Elected", i2)
                for g in st[i2].eliminated:
                    for c in g:
                        status[c] = ("Eliminated", i2)
            exp = [[str(c), status.get(c, ("Remaining", r))[0], status.get(c, ("Remaining", r))[1]] for c in order]
            if sorted(exp) != sorted(ans):
                ctx.fail(f"{rule}: get_status_df({idx}) disagrees with the per-round records", case, {"got": ans, "exp": exp})
                return
            # row order: grouping of the ranking (order inside a tied group is free)
            pos = {str(c): i for i, g in enumerate(fold_elected(st, r) + [g for g in st[r].remaining if len(g)]
                                                   + fold_eliminated(st, r)) for c in g}
            seq = [pos[x[0]] for x in ans]
            if any(seq[i] > seq[i + 1] for i in range(len(seq) - 1)):
                ctx.fail(f"{rule}: get_status_df({idx}) rows are not in ranking order", case, {"got": ans})
                return
        if method in ("get_profile", "get_step"):
            p = o.value if method == "get_profile" else o.value[0]
            ctx.count("profile_replays_checked")
            if rr.draws:
                ctx.fail(f"{rule}: replay for {method}({idx}) consumed randomness although construction did not", case, {})
                return
            rem = {c for g in st[r].remaining for c in g}
            if set(p.candidates) != rem:
                ctx.fail(f"{rule}: profile of round {r} does not contain exactly the remaining candidates", case,
                         {"profile_candidates": sorted(map(str, p.candidates)), "remaining": sorted(map(str, rem)),
                          "outcome": canon.outcome_c(e)}, mech=mech())
                return
            if any(len(g) > 0 for s in st[1: r + 1] for g in s.elected) and rule in rules.STV_FAMILY:
                last = st[r]
                if r == ns - 1 and not any(True for _ in last.scores):
                    ctx.count("default_election_replays")
            if e.score_function is not None:
                o3 = observe(e.score_function, p)
                if not o3.ok or dict(o3.value) != dict(st[r].scores):
                    ctx.fail(f"{rule}: re-scoring the profile of round {r} does not reproduce the recorded tallies", case,
                             {"rescored": repr(o3)[:300] if not o3.ok else canon.scores_c(o3.value),
                              "recorded": canon.scores_c(st[r].scores)}, mech=mech())
                    return
            if method == "get_step" and o.value[1] is not st[idx]:
                if canon.state_c(o.value[1]) != canon.state_c(st[r]):
                    ctx.fail(f"{rule}: get_step({idx}) returned a different round record", case, {})
                    return
    ctx.case({"cfg": cfg, "profile": spec, "seed": case.get("seed", 0), "queries": qs},
             nontrivial=ns >= 3 and len(rounds_touched) >= 3 and neg, sample=len(spec["ballots"]) < 40)


def directed(ctx):
    B = lambda r, w=1: canon.spec_ballot(r=[[c] for c in r], w=w)  # noqa
    P = canon.spec_profile
    out = []
    # STV ending in a default election of >= 2 candidates, deterministic
    out.append({"cfg": {"rule": "STV", "m": 3, "quota": "droop", "sim": True, "transfer": "fractional", "tiebreak": None},
                "profile": P(["A", "B", "C", "D"], [B("A", 10), B("B", 3), B("C", 2), B("D", 1)])})
    out.append({"cfg": {"rule": "SequentialRCV", "m": 2, "quota": "droop", "sim": True, "tiebreak": None},
                "profile": P(["A", "B", "C"], [B("A", 3), B("B", 2), B("C", 1)])})
    out.append({"cfg": {"rule": "PluralityVeto", "m": 1, "tiebreak": None},
                "profile": P(["A", "B", "C"], [B("ABC", 2), B("BCA", 2), B("CAB", 1)])})
    for c in out:
        n = None
        c["queries"] = [["get_profile", -1], ["get_profile", 1], ["get_step", -1], ["get_elected", -1], ["get_profile", 2],
                        ["get_profile", -2], ["get_status_df", -1], ["get_ranking", 1], ["get_profile", 0], ["get_profile", 99],
                        ["get_eliminated", -1], ["get_remaining", -2], ["get_profile", 3], ["get_profile", -1]]
    return out


def run(ctx):
    if ctx.shard == 0:
        for c in directed(ctx):
            ctx.guard("directed", check_case, ctx, c)
    if not ctx.quick and ctx.shard == 1:
        from . import c02

        c = ctx.guard("realistic_case", c02.realistic_case)
        if c is not None:
            c["cfg"]["tiebreak"] = None
            c["queries"] = [["get_profile", 3], ["get_elected", -1], ["get_profile", -1], ["get_ranking", 10], ["get_status_df", -2],
                            ["get_eliminated", 20], ["get_remaining", -5], ["get_step", 12], ["get_profile", 3], ["get_profile", 99]]
            ctx.guard("realistic", check_case, ctx, c)
            ctx.count("realistic_irv_minneapolis")
    maxn = 6 if ctx.quick else 7
    for i in range(ctx.n(2600, 40000)):
        if ctx.expired():
            break
        rule = rules.ALL_RULES[(i + ctx.shard) % len(rules.ALL_RULES)]
        c = cases.any_case(ctx.rnd, rule, maxn=min(6, maxn) if rule in rules.PAIRWISE else maxn)
        if ctx.rnd.random() < 0.6 and c["cfg"].get("tiebreak") == "random":
            c["cfg"]["tiebreak"] = None if rule in rules.SCORE_RULES else ctx.rnd.choice([None, "borda", "first_place"])
        if c["cfg"].get("transfer") == "random" and ctx.rnd.random() < 0.7:
            c["cfg"]["transfer"] = "fractional"
        if rule in ("STV", "Alaska") and c["cfg"].get("transfer") == "fractional" and i % 3 == 0:
            # a transfer rule of the caller's own (whole weight passed on): the replay behind get_profile must use it too
            c["full_weight"] = True
            ctx.count("elections_with_callers_own_transfer_rule")
        c["seed"] = ctx.rnd.randrange(10 ** 6)
        c["qlen"] = ctx.rnd.randint(12, 24) if ctx.quick else ctx.rnd.randint(12, 60)
        ctx.guard("check", check_case, ctx, c)


def replay(ctx, case):
    check_case(ctx, case)
