import sys, random, itertools, math, collections
sys.path[:0] = ['/repo/src', __import__('os').path.join(__import__('os').path.dirname(__import__('os').path.abspath(__file__)) if '__file__' in globals() else '.', 'shim')]
import numpy as np
import votekit.ballot_generator as bg
from votekit import Ballot
from votekit.pref_interval import PreferenceInterval as PI
def params(coh=(0.7,0.9), sizes=(2,2)):
    W = [f'W{i}' for i in range(1,sizes[0]+1)]; C=[f'C{i}' for i in range(1,sizes[1]+1)]
    iv=lambda cs: PI({c: 1.0/(i+1)**2 for i,c in enumerate(cs)})
    return dict(slate_to_candidates={'W':W,'C':C},
        pref_intervals_by_bloc={'W':{'W':iv(W),'C':iv(C)},'C':{'W':iv(W),'C':iv(C)}},
        bloc_voter_prop={'W':0.5,'C':0.5},
        cohesion_parameters={'W':{'W':coh[0],'C':1-coh[0]},'C':{'C':coh[1],'W':1-coh[1]}})
# law-mode interposition on np.random.choice
calls=[]
orig=np.random.choice
def spy(a,size=None,replace=True,p=None):
    calls.append((list(a) if not isinstance(a,int) else a, size, replace, None if p is None else list(p)))
    return orig(a,size=size,replace=replace,p=p)
def run(cls, **extra):
    calls.clear(); np.random.choice=spy
    try:
        g=cls(**params(sizes=(3,2)),**extra); g.generate_profile(6)
    finally: np.random.choice=orig
    return g
g=run(bg.AlternatingCrossover)
iv=g.pref_intervals_by_bloc
mis=0
for a,size,rep,p in calls:
    if isinstance(a,int): continue
    # find which interval this is
    for b in g.blocs:
        for s in g.blocs:
            d=iv[b][s].interval
            if set(a)==set(d):
                if any(abs(d[c]-pp)>1e-12 for c,pp in zip(a,p)): mis+=1
                break
        else: continue
        break
print('AC calls',len(calls),'misaligned (counted over all candidate blocs)',mis)
g=run(bg.name_PlackettLuce)
mis=0
for a,size,rep,p in calls:
    ok=any(set(a)==set(g.pref_interval_by_bloc[b].interval) and all(abs(g.pref_interval_by_bloc[b].interval[c]-pp)<1e-12 for c,pp in zip(a,p)) for b in g.blocs)
    mis+= (not ok)
print('nPL calls',len(calls),'misaligned',mis, 'replace flags', {c[2] for c in calls})
# kernel extraction name-BT
g=bg.name_BradleyTerry(**params(sizes=(2,1)))
b='W'; interval=g.pref_interval_by_bloc[b].interval; cands=list(interval)
pi=g.pdfs_by_bloc[b]
def step(state, j, u):
    oc, orr = random.choices, random.random
    random.choices=lambda pop,k=1,**kw: [j]*k
    random.random=lambda: u
    try:
        pp=g._BT_mcmc(1, interval, Ballot(ranking=tuple(frozenset([c]) for c in state)))
    finally:
        random.choices, random.random = oc, orr
    return tuple(next(iter(s)) for s in pp.ballots[0].ranking)
def acc(state,j):
    lo,hi=0.0,1.0
    if step(state,j,1-1e-16)!=state: return 1.0
    if step(state,j,0.0)==state: return 0.0
    for _ in range(50):
        mid=(lo+hi)/2
        if step(state,j,mid)!=state: lo=mid
        else: hi=mid
    return lo
maxdb=0
for s in itertools.permutations(cands):
    for j in range(len(cands)-1):
        t=list(s); t[j],t[j+1]=t[j+1],t[j]; t=tuple(t)
        a=acc(s,j); a2=acc(t,j)
        maxdb=max(maxdb, abs(pi[s]*a-pi[t]*a2))
print('nBT max detailed-balance residual', maxdb)
# slate BT MCMC kernel
for coh in [(0.7,0.6),(0.3,0.6)]:
    g=bg.slate_BradleyTerry(**params(coh=coh,sizes=(2,2)))
    b='W'; pdf=g.ballot_type_pdf[b]
    def run_steps(js, us):
        oc, orr = np.random.choice, random.random
        it=iter(us)
        np.random.choice=lambda n,size=None,**kw: np.array(js)
        random.random=lambda: next(it)
        try: return g._sample_ballot_types_MCMC(b, len(js))
        finally: np.random.choice, random.random = oc, orr
    seed=tuple(run_steps([0],[1-1e-16])[0])  # rejected proposal -> seed state (if not accepted w.p.1)
    states=set(pdf)
    # navigate via BFS of accepted swaps (u=0 accepts whenever prob>0)
    def reach(target):
        # BFS over swap sequences from seed
        from collections import deque
        start=tuple(x for bb in g.blocs for x in [bb]*2)
        q=deque([(start,[])]); seen={start}
        while q:
            s,path=q.popleft()
            if s==target: return path
            for j in range(len(s)-1):
                t=list(s); t[j],t[j+1]=t[j+1],t[j]; t=tuple(t)
                if t not in seen: seen.add(t); q.append((t,path+[j]))
    def acc2(s,j):
        path=reach(s)
        def one(u):
            out=run_steps(path+[j],[0.0]*len(path)+[u])
            assert (tuple(out[len(path)-1])==s) if path else True, (out, s)
            return tuple(out[-1])
        if one(1-1e-16)!=s: return 1.0
        if one(0.0)==s: return 0.0 if True else None
        lo,hi=0.0,1.0
        for _ in range(50):
            mid=(lo+hi)/2
            if one(mid)!=s: lo=mid
            else: hi=mid
        return lo
    maxdb=0; worst=None
    for s in states:
        for j in range(len(s)-1):
            t=list(s); t[j],t[j+1]=t[j+1],t[j]; t=tuple(t)
            if t==s: continue
            r=abs(pdf[s]*acc2(s,j)-pdf[t]*acc2(t,j))
            if r>maxdb: maxdb=r; worst=(s,t,acc2(s,j),acc2(t,j),pdf[s],pdf[t])
    print('sBT coh',coh[0],'max detailed-balance residual',maxdb, worst)
