import sys, random, itertools, io, contextlib, collections, json, os, traceback
sys.path[:0] = ['/repo/src', __import__('os').path.join(__import__('os').path.dirname(__import__('os').path.abspath(__file__)) if '__file__' in globals() else '.', 'shim')]
exec(open('p12.py').read().split("rules = {")[0])
import votekit.utils as U
def ref_fpv(cands, bl):
    t={c:F(0) for c in cands}
    for r,w in bl: t[r[0]]+=w
    return t
def ref_borda(cands, bl):
    n=len(cands); t={c:F(0) for c in cands}
    for r,w in bl:
        for i,c in enumerate(r): t[c]+=w*(n-i)
        rest=[c for c in cands if c not in r]
        if rest:
            pts=sum(range(n-len(r),0,-1))
            for c in rest: t[c]+=w*F(pts,len(rest))
    return t
cnt=collections.Counter()
def check_tb(name, e, cands, bl, tb, stage_scores=None):
    st=e.election_states
    for i,s in enumerate(st):
        for K,R in s.tiebreaks.items():
            cnt[(name,'tiebreaks seen')]+=1
            if sorted(c for g in R for c in g)!=sorted(K) or any(len(g)!=1 for g in R): cnt[(name,'BAD partition')]+=1; continue
            prev=st[i-1].scores if i>0 else {}
            if prev and all(c in prev for c in K):
                if len({prev[c] for c in K})!=1: cnt[(name,'BAD not tied on prev scores')]+=1
            el=[c for g in s.elected for c in g]; elim=[c for g in s.eliminated for c in g]
            order=[next(iter(g)) for g in R]
            inK_el=[c for c in el if c in K]
            if inK_el and inK_el!=order[:len(inK_el)]: cnt[(name,'BAD elected not prefix')]+=1
            if elim and any(c in K for c in elim):
                if elim!=[order[-1]]: cnt[(name,'BAD elim not last')]+=1
            if inK_el and len(inK_el)==len(K) : cnt[(name,'BAD whole set elected (no dependence)')]+=1
for it in range(400):
    n=rnd.randint(2,5); cands,bl=rprof(n, rnd.randint(1,5), tie_bias=True)
    m=rnd.randint(1,n-1)
    p=mk(cands,bl)
    for tb in ('random','borda','first_place'):
        for name,f in [('Plurality',lambda: Plurality(p,m=m,tiebreak=tb)),('Borda',lambda: Borda(p,m=m,tiebreak=tb)),('STV',lambda: STV(p,m=m,tiebreak=tb)),('STV1',lambda: STV(p,m=m,tiebreak=tb,simultaneous=False)),('TopTwo',lambda: TopTwo(p,tiebreak=tb)),('Alaska',lambda: Alaska(p,m_1=min(n,m+1),m_2=m,tiebreak=tb)),('Condo',lambda: CondoBorda(p,m=m))]:
            try:
                with contextlib.redirect_stdout(io.StringIO()), Tap() as t:
                    e=f()
            except BaseException as ex:
                cnt[(name,'EXC',type(ex).__name__)]+=1; continue
            tbs=sum(len(s.tiebreaks) for s in e.election_states)
            if t.draws and not tbs: cnt[(name,'draws without recorded tiebreak')]+=1
            check_tb(name,e,cands,bl,tb)
            # score tiebreak order check for single-round rules
            if name in('Plurality','Borda') and tb in ('borda','first_place'):
                sc=ref_borda(cands,bl) if tb=='borda' else ref_fpv(cands,bl)
                for K,R in e.election_states[1].tiebreaks.items():
                    order=[next(iter(g)) for g in R]
                    if any(sc[a]<sc[b] for a,b in zip(order,order[1:])): cnt[(name,'BAD score order',tb)]+=1
for k,v in sorted(cnt.items(), key=str): print(k,v)
