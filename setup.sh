#!/bin/sh
# Offline setup: nothing to build or install (monitors are plain Python run by /venv/bin/python).
# Verifies the interpreter, the ot shim and that the working tree imports.
cd "$(dirname "$0")" || exit 1
mkdir -p evidence replays .work
PYTHONDONTWRITEBYTECODE=1 /venv/bin/python - <<'PY'
import sys
sys.path.insert(0, '.')
from vk import env
vk = env.bootstrap()
import votekit.elections, votekit.ballot_generator, votekit.cvr_loaders, votekit.cleaning
print("setup ok: votekit from", vk.__file__)
PY
