import sys, random, math, collections, io, contextlib
sys.path[:0] = ['/repo/src', __import__('os').path.join(__import__('os').path.dirname(__import__('os').path.abspath(__file__)) if '__file__' in globals() else '.', 'shim')]
import numpy as np
import votekit.ballot_generator as bg
from votekit.pref_interval import PreferenceInterval as PI
rnd=random.Random(2)
def valid_hh(v, a, N, tol=1e-9):
    if sum(a)!=N: return False
    d=lambda k: math.sqrt(k*(k+1))
    pr=lambda vi,k: 0.0 if vi==0 else (math.inf if k==0 else vi/d(k))
    nxt=max(pr(v[i],a[i]) for i in range(len(v)))
    lst=min((pr(v[i],a[i]-1) for i in range(len(v)) if a[i]>0), default=math.inf)
    return nxt<=lst*(1+tol) or (math.isinf(nxt) and math.isinf(lst))
cnt=collections.Counter()
for it in range(300):
    sizes=(rnd.randint(1,3),rnd.randint(1,3))
    W=[f'W{i}' for i in range(sizes[0])]; C=[f'C{i}' for i in range(sizes[1])]
    iv=lambda cs: PI({c: rnd.choice([0.05,0.3,1,2]) for c in cs})
    cw=rnd.choice([0.0,0.2,0.5,0.9,1.0]); cc=rnd.choice([0.0,0.3,0.6,1.0]); pw=rnd.choice([0.1,0.5,0.75,1.0,0.0])
    par=dict(slate_to_candidates={'W':W,'C':C},pref_intervals_by_bloc={'W':{'W':iv(W),'C':iv(C)},'C':{'W':iv(W),'C':iv(C)}},bloc_voter_prop={'W':pw,'C':1-pw},cohesion_parameters={'W':{'W':cw,'C':1-cw},'C':{'C':cc,'W':1-cc}})
    N=rnd.choice([1,2,3,5,10,37])
    for name,cls in (('AC',bg.AlternatingCrossover),('CS',bg.CambridgeSampler)):
        try:
            with contextlib.redirect_stdout(io.StringIO()):
                g=cls(**par); bb,pp=g.generate_profile(N,by_bloc=True)
        except BaseException as e:
            cnt[(name,'EXC',type(e).__name__,str(e)[:50])]+=1; continue
        if pp.total_ballot_wt!=N: cnt[(name,'total')]+=1
        split=[]; 
        for b,own in (('W',set(W)),('C',set(C))):
            emp=sum(x.weight for x in bb[b].ballots if not x.ranking); cnt[(name,"empty ballots weight>0")]+= (emp>0); o=sum(x.weight for x in bb[b].ballots if x.ranking and next(iter(x.ranking[0])) in own)
            split+= [int(o), int(bb[b].total_ballot_wt-o)]
        v=[cw*pw,(1-cw)*pw,cc*(1-pw),(1-cc)*(1-pw)]
        ok=valid_hh(v,split,N)
        cnt[(name,'split ok' if ok else 'split INVALID')]+=1
        if not ok and cnt[(name,'split INVALID')]<=4: print(name,v,N,split)
for k,v in sorted(cnt.items(),key=str): print(k,v)
