"""C01 — every election terminates with exactly m winners and a consistent outcome."""
from fractions import Fraction as F

from .. import canon, cases, rules, rng, oracle
from ..core import Outcome
from ..ref import pairwise, scoring

META = {
    "level": "exploration",
    "rule": ("cases = (rule configuration, valid generated profile, RNG script) triples over all 18 rule classes, "
             "uniform + 14 hostile profile classes + directed cases; every RNG choice tree explored depth-first up to "
             "a branch budget. distinct = hash of (cfg, profile, script); non-trivial = n>=2 and (>=2 recorded rounds "
             "or a recorded tiebreak or an exception outcome)."),
    "assumptions": ["bounded progress: 2n+4 rounds and 5e6 python calls per construction stand in for 'terminates'",
                    "inputs limited to n<=6 (quick) / n<=8 (thorough) candidates and <=12 distinct ballots"],
    "min_obs": {"all": {"runs_ok": 50, "valueerror_allowed_seen": 1, "valueerror_required_seen": 1,
                        "partition_checks": 100, "multi_round_runs": 10, "tiebreak_runs": 5}},
}


def observed_top_tie():
    """was the last stored step a one-by-one STV round whose top tally group (at/above quota) has >= 2 members?"""
    last = rules.LAST_STEP[0]
    if not last:
        return False
    obj, prev = last
    if not hasattr(obj, "threshold") or getattr(obj, "simultaneous", True) or not prev.scores:
        return False
    top = max(prev.scores.values())
    return top >= obj.threshold and sum(1 for v in prev.scores.values() if v == top) >= 2


def observed_overquota():
    """Did some recorded round of the election that raised have more candidates at/above its threshold than seats left
    (or a non-positive threshold)?  Decided on the observed tallies: the reference (fractional semantics) cannot predict
    the tallies of a random-transfer count."""
    last = rules.LAST_STEP[0]
    if not last:
        return False
    obj = last[0]
    T = getattr(obj, "threshold", None)
    m = getattr(obj, "m", None)
    if T is None or m is None:
        return False
    if T <= 0:
        return True
    elected = 0
    for s in obj.election_states:
        elected += sum(len(g) for g in s.elected)
        if elected > m:
            return True
        above = sum(1 for v in s.scores.values() if v >= T)
        if getattr(obj, "simultaneous", True) and above > m - elected:
            return True
    return False


def check_outcome(ctx, case, out, r, cands, ballots):
    cfg = case["cfg"]
    rule = cfg["rule"]
    n = len(cands)
    if isinstance(out.exc, (rules.RoundBudget, rules.CallBudget)):
        sym = "round-budget" if isinstance(out.exc, rules.RoundBudget) else "call-budget"
        ctx.count("budget_fired")
        ctx.fail(f"does not terminate ({out.exc})", case, {"symptom": sym},
                 mech=oracle.classify(cfg, cands, ballots, sym, r.events))
        return
    if not out.ok:
        et = out.etype
        ctx.count("exc_" + et)
        if et == "ValueError":
            allowed, required, why = oracle.valueerror_policy(cfg, cands, ballots)
            if not allowed and cfg.get("tiebreak") is None and observed_top_tie():
                # decided on the observed tallies of the round that raised (the reference cannot predict a
                # random-transfer count): a tie for first among candidates at/above quota in one-by-one mode
                allowed = True
                ctx.count("valueerror_allowed_by_observed_tie")
            if allowed:
                ctx.count("valueerror_allowed_seen")
                if required:
                    ctx.count("valueerror_required_seen")
                return
        mech = oracle.classify(cfg, cands, ballots, et, r.events)
        if mech is None and cfg.get("transfer") == "random" and (rule in rules.STV_FAMILY or rule == "Alaska") and \
                et in ("IndexError", "ZeroDivisionError", "KeyError") and observed_overquota():
            mech = "stv-overquota"
            ctx.count("overquota_classified_on_observed_tallies")
        if mech == "stv-overquota" and et in ("IndexError", "KeyError") and not observed_overquota():
            # the reference finds an over-quota round on SOME branch of this profile, but the count that raised never met
            # one: this failure is not the recorded mechanism
            mech = None
            ctx.count("overquota_not_observed_not_suppressed")
        ctx.fail(f"{rule}: {et} escapes for valid input: {str(out.exc)[:120]}", case,
                 {"exception": et, "message": str(out.exc)[:300], "tb": out.tb[-900:] if out.tb else None}, mech=mech)
        return
    e = out.value
    ctx.count("runs_ok")
    nst = len(e.election_states)
    if nst > 2:
        ctx.count("multi_round_runs")
    # ValueError required?
    if cfg.get("tiebreak") is None and (rule in ("Plurality", "SNTV", "Borda", "TopTwo") or rule in rules.SCORE_RULES):
        allowed, required, why = oracle.valueerror_policy(cfg, cands, ballots)
        if required:
            ctx.fail(f"{rule}: boundary tie without tiebreak returned a result instead of ValueError ({why})", case,
                     {"outcome": canon.outcome_c(e)})
            return
    elif cfg.get("tiebreak") is None:
        pass
    # seat count
    mexp = rules.seats(cfg, n)
    el = [c for g in e.get_elected() for c in g]
    if rule == "DominatingSets":
        mg = pairwise.margins(cands, ballots)
        top = pairwise.tiers(cands, mg)[0] if n <= 8 else pairwise.tiers_fast(cands, mg)[0]
        if set(el) != set(top) or len(el) != len(top):
            ctx.fail("DominatingSets does not elect exactly the top tier", case, {"elected": sorted(el), "top": sorted(top)})
    elif len(el) != mexp or len(set(el)) != len(el):
        ctx.fail(f"{rule}: elected {len(el)} candidates, expected {mexp}", case,
                 {"elected": el, "outcome": canon.outcome_c(e)},
                 mech=(oracle.classify(cfg, cands, ballots, "seatcount", r.events)
                       if (len(el) > mexp and observed_overquota()) else None))
        return
    # partition + monotone per round
    prev_el, prev_x = set(), set()
    cs = sorted(cands)
    any_tb = False
    for i in range(nst):
        El = [c for g in e.get_elected(i) for c in g]
        Re = [c for g in e.get_remaining(i) for c in g]
        Xl = [c for g in e.get_eliminated(i) for c in g]
        ctx.count("partition_checks")
        if sorted(El + Re + Xl) != cs:
            ctx.fail(f"{rule}: round {i} groups are not a partition of the candidates", case,
                     {"round": i, "elected": El, "remaining": Re, "eliminated": Xl, "candidates": cs})
            return
        rk = [c for g in e.get_ranking(i) for c in g]
        if sorted(rk) != cs:
            ctx.fail(f"{rule}: get_ranking({i}) does not list each candidate once", case, {"ranking": rk})
            return
        if not prev_el <= set(El) or not prev_x <= set(Xl):
            ctx.fail(f"{rule}: status not monotone at round {i}", case,
                     {"round": i, "prev_elected": sorted(prev_el), "elected": El, "prev_elim": sorted(prev_x), "elim": Xl})
            return
        prev_el, prev_x = set(El), set(Xl)
        if e.election_states[i].tiebreaks:
            any_tb = True
    if any_tb:
        ctx.count("tiebreak_runs")
    # ties for elimination are always broken AND recorded (decided on the observed tallies of the previous round)
    if rule in rules.STV_FAMILY or rule == "Alaska":
        st = e.election_states
        for i in range(2 if rule == "Alaska" else 1, nst):
            elim = [c for g in st[i].eliminated for c in g]
            prev = st[i - 1].scores
            if len(elim) == 1 and prev and elim[0] in prev:
                low = min(prev.values())
                grp = frozenset(c for c, v in prev.items() if v == low)
                if len(grp) > 1 and elim[0] in grp:
                    ctx.count("elimination_ties_seen")
                    if grp not in st[i].tiebreaks:
                        ctx.fail(f"{rule}: a tie for elimination was broken without being recorded", case,
                                 {"round": i, "tied_lowest": sorted(map(str, grp)), "eliminated": elim,
                                  "recorded": [sorted(map(str, k)) for k in st[i].tiebreaks]})
                        return nst, any_tb
    return nst, any_tb


def check_case(ctx, case, max_runs):
    spec = case["profile"]
    cfg = case["cfg"]
    cands, ballots = canon.plain(spec)
    prof = ctx.guard("build_profile", canon.build_profile, spec)
    if prof is None:
        return
    # python-call budget: PluralityVeto always; a sample of every other rule except the pairwise ones (k! ballot_fill); the
    # sample is chosen by case hash so that it does not move the workload's random stream
    budget = 5_000_000 if cfg["rule"] in rules.MULTI_ROUND and (cfg["rule"] == "PluralityVeto" or ctx.rnd.random() < 0.15) else None
    if budget is None and cfg["rule"] not in rules.MULTI_ROUND and cfg["rule"] not in rules.PAIRWISE and \
            int(canon.jhash([cfg, spec])[:2], 16) % 8 == 0:
        budget = 5_000_000
        ctx.count("single_round_runs_with_call_budget")
    ctx.count("tag_" + case.get("tag", "?"))
    ctx.count("rule_" + cfg["rule"])
    script0 = case.get("script")
    rules.LAST_STEP[0] = None
    if script0 is not None:
        r = rng.Rng("script", script=script0)
        with r:
            out = rules.run(cfg, prof, call_budget=budget)[0]
        runs = [(script0, out, r)]
    else:
        runs = rng.explore(lambda: rules.run(cfg, prof, call_budget=budget)[0], max_runs=max_runs, raw=True)
    before = canon.jhash(canon.profile_c(prof)) + canon.jhash([canon.groups(b.ranking or ()) for b in prof.ballots])
    for script, out, r in runs:
        c2 = dict(case)
        c2["script"] = script
        # running an election must not change the profile it was given (the same profile object is reused for every run)
        after = canon.jhash(canon.profile_c(prof)) + canon.jhash([canon.groups(b.ranking or ()) for b in prof.ballots])
        ctx.count("input_profile_unchanged_checks")
        if after != before:
            ctx.fail(f"{cfg['rule']}: constructing the election changed the input profile", c2, {})
            return
        res = ctx.guard("check_outcome", check_outcome, ctx, c2, out, r, cands, ballots)
        nontrivial = len(cands) >= 2 and (not out.ok or (res is not None and (res[0] > 2 or res[1])))
        ctx.case({"cfg": cfg, "profile": spec, "script": script}, nontrivial=nontrivial)
        if r.draws:
            ctx.count("runs_with_randomness")
            ctx.count("choice_points", len(r.trace))
        if len(script) and getattr(r, "exhausted", False):
            ctx.count("choice_trees_exhausted")


def monitored_repo_suite(ctx):
    """Realistic workload (thorough): the repository's own test-suite, run on a scratch copy of the working tree with the
    C01 invariants attached to every election it constructs (vk/pytest_plugin.py)."""
    import json
    import os
    import shutil
    import subprocess
    from .. import env

    work = os.path.join(env.workdir(), "repo_copy")
    shutil.rmtree(work, ignore_errors=True)
    os.makedirs(work)
    repo = os.path.dirname(env.REPO_SRC)
    for d in ("src", "tests"):
        shutil.copytree(os.path.join(repo, d), os.path.join(work, d))
    for f in ("conftest.py", "pyproject.toml", "pytest.ini", "setup.cfg"):
        if os.path.exists(os.path.join(repo, f)):
            shutil.copy(os.path.join(repo, f), work)
    out = os.path.join(work, "plugin_out.jsonl")
    e = dict(os.environ, PYTHONPATH=os.pathsep.join([os.path.join(work, "src"), env.SHIMS, env.VERIF]), VK_PLUGIN_OUT=out,
             PYTHONDONTWRITEBYTECODE="1", PYTHONHASHSEED="0", MPLBACKEND="Agg")
    try:
        r = subprocess.run([env.PYTHON, "-m", "pytest", "-q", "-p", "no:cacheprovider", "-p", "vk.pytest_plugin", "-n", "4",
                            "tests/elections", "tests/test_pref_profile.py", "tests/test_e2e.py", "tests/test_utils.py"],
                           cwd=work, env=e, capture_output=True, text=True, timeout=2400)
        ctx.count("repo_suite_exit_%d" % r.returncode)
        recs = [json.loads(ln) for ln in open(out)] if os.path.exists(out) else []
        for rec in recs:
            if rec["kind"] == "stats":
                for k in ("elections_observed", "rounds_checked", "condense_observed"):
                    ctx.count("repo_suite_" + k, rec[k])
            elif rec["kind"] == "violation":
                ctx.fail(f"{rec['rule']} (constructed by the repository's test {rec['test']}): {rec['what']}",
                         {"kind": "repo_suite", "test": rec["test"]}, rec.get("detail"))
            else:
                ctx.count("repo_suite_harness_errors")
        ctx.case({"kind": "repo_suite", "tests": "tests/elections + profile/utils/e2e"}, nontrivial=True)
    finally:
        shutil.rmtree(env.workdir(), ignore_errors=True)


def run(ctx):
    max_runs = 4 if ctx.quick else 24
    if not ctx.quick and ctx.shard == ctx.nshards - 1:
        ctx.guard("monitored_repo_suite", monitored_repo_suite, ctx)
    if ctx.shard == 0:
        for c in cases.directed_cases():
            check_case(ctx, c, max_runs)
            ctx.count("directed_cases")
    total = ctx.n(12000, 240000)
    maxn = 6 if ctx.quick else 8
    for i in range(total):
        if ctx.expired():
            break
        rule = rules.ALL_RULES[(i + ctx.shard) % len(rules.ALL_RULES)]
        case = cases.any_case(ctx.rnd, rule, maxn=6 if rule in rules.PAIRWISE else maxn)
        check_case(ctx, case, max_runs)


def replay(ctx, case):
    if case.get("kind") == "repo_suite":
        return monitored_repo_suite(ctx)
    check_case(ctx, case, 1)
