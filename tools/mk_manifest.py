#!/usr/bin/env python3
"""Regenerates MANIFEST.json from the table below (kept valid at all times)."""
import json, os
HERE = os.path.dirname(os.path.dirname(os.path.abspath(__file__)))
ALL = ["C%02d" % i for i in range(1, 21)]
CHECKS = {
 "C01": dict(
   technique="runtime monitor: invariants at the API boundary (seat count, per-round partition, monotone status), exception-policy oracle, round/call budgets; RNG interposition with depth-first enumeration of the choice tree",
   text="Every one of the 18 rule classes is constructed on generated valid profiles (uniform + 14 hostile classes + directed cases) while monitors watch the constructor outcome and every recorded round; random choices are scripted and the choice tree is enumerated up to a branch budget. Holds on the executions observed; nothing is claimed for inputs not run.",
   note="Trusted: the reference scorers / STV step relation used to decide when ValueError is allowed; 'terminates' is restated as <=2n+4 rounds and <=5e6 python calls. Known findings are suppressed only by mechanism predicates in vk/oracle.py.",
   ref="§4 C01"),
 "C02": dict(
   technique="trace validation: every recorded STV/IRV/SequentialRCV round checked against a nondeterministic reference step relation (exact rationals) that follows the observed choice at ties; transfer spy on the public transfer= parameter; scripted RNG tree; a tie for first at/above the quota with more tied candidates than open seats and no tiebreak must have raised ValueError",
   text="Each recorded round of real STV-family runs must be one of the steps the C02 statement allows from the reference state (quota, who is elected, transfer factor, default election, elimination with initial-first-place tie filter), with tallies and candidate order recomputed independently. Holds on the traces observed.",
   note="Trusted: vk/ref/stv.py as the reading of the statement. Runs whose constructor raises are judged by C01.",
   ref="§4 C02"),
 "C03": dict(
   technique="runtime monitor: function-level conservation oracle on fractional_transfer/random_transfer; law-mode interposition on random.sample (population and k), forced subsets; per-round weight balance of real STV runs decided both against the reference trace and locally on the observed input/output profiles of every step (_run_step wrapper)",
   text="Direct transfer calls and whole STV runs are observed; outputs must be winner-free images of the inputs with exactly the prescribed weights, the random rule must hand random.sample exactly the unit expansion of the winner's transferable ballots with k = tally-threshold and return other ballots + the drawn subset; per round the weight drop must equal threshold*quota-elected + exhausted weight.",
   note="Trusted: random.sample is a uniform k-subset (equal likelihood is decided at the primitive's arguments, not by frequency). Short piles (known finding of C01) only demand that no vote is created.",
   ref="§4 C03"),
 "C04": dict(
   technique="differential runtime monitor: scoring utilities and Plurality/SNTV/Borda round records vs an exact-rational reference scorer; scripted tiebreak RNG",
   text="score_profile_from_rankings / first_place_votes / mentions / borda_scores are called on generated profiles (tie groups and unlisted groups up to n, rational weights, int/Fraction/float vectors of all lengths) and compared exactly with the definition, including the per-ballot point sum; Plurality/SNTV/Borda outcomes must be top-m, descending, ties reported or recorded as broken.",
   note="Trusted: vk/ref/scoring.py; float vector entries are read as their exact binary value.",
   ref="§4 C04"),
 "C05": dict(
   technique="runtime monitor: acceptance-predicate oracle with single-limit smallest-margin mutations placed at every tuple position; reference totals and top-m",
   text="Each of the five score-ballot rules is constructed on profiles that respect every limit (some exactly on it) and on profiles where one ballot violates exactly one limit by 1/10^6, is negative or has no scores; accepted <=> no exception, otherwise TypeError; totals and winners are recomputed exactly.",
   note="Trusted: acceptance predicate evaluated on the stored (rounded to denominator<=10^6) scores.",
   ref="§4 C05"),
 "C06": dict(
   technique="runtime monitor: reference margins, brute-force dominating tiers, defining tier properties asserted on the returned tiers (all bipartitions), Condorcet equivalences, generated query sequences on the same graph object (purity), DominatingSets/CondoBorda outcome oracle",
   text="PairwiseComparisonGraph, DominatingSets and CondoBorda are run on profiles with cycles, nested cycles, pairwise ties, partial ballots and zero-vote candidates; margins, tiers and winners are compared with independent exact computations.",
   note="n <= 6 (quick) / 7 (thorough): ballot_fill is factorial in the number of missing candidates.",
   ref="§4 C06"),
 "C07": dict(
   technique="runtime monitor: Droop-proportionality axiom evaluated over all 2^n-1 coalitions on every finished STV run (both transfers, both modes), IRV majority; scripted tie-breaks, seeded/scripted random transfers",
   text="For every finished run and every candidate subset S the solid-coalition weight is recomputed from the input and |elected ∩ S| >= min(floor(W/T),|S|,m) is asserted; workloads are biased to coalitions worth exactly k*T and k*T-1.",
   note="Conservative coalition reading (first |S| positions exactly S). Runs that raise are judged by C01.",
   ref="§4 C07"),
 "C08": dict(
   technique="metamorphic runtime monitor (rename / permute / split / merge / candidate order) on RNG-tapped deterministic executions, plus cross-process differential runs of the same shard under several PYTHONHASHSEED values; profiles without a candidate list; a count that draws randomness under one hash seed only is a failure",
   text="Every deterministic path (RNG tap saw no draw) of every ranking, scoring and pairwise rule and of the scoring utilities is re-run on transformed copies of the profile and must give the canonically identical (resp. renamed) rounds; the same cases are executed in separate interpreters under 4 (thorough 16) hash seeds and the canonical outcomes byte-compared.",
   note="Canonical forms sort inside tied groups, so only differences the statement forbids are compared.",
   ref="§4 C08"),
 "C09": dict(
   technique="runtime monitor over query histories: canonical snapshots of the election object before/after every query (purity), fold-of-records oracle for cumulative getters, replay oracle for get_profile/get_step, index algebra",
   text="Generated sequences of 12-60 getter calls (repetition, negative and out-of-range indices) are applied to finished elections of all 18 rules; the recorded rounds, the initial profile and all scalar attributes must never change, and for elections built without randomness each answer must agree with the per-round records, with re-scoring, and with the answer for the equivalent index.",
   note="Consistency clauses are judged only for elections whose construction drew no randomness (as the statement says); purity for all.",
   ref="§4 C09"),
 "C10": dict(
   technique="runtime monitor: RNG tap + scripted re-execution (outcome invariance unless a tiebreak is recorded), per-rule validity oracle for every recorded tiebreak, reference scores for borda/first_place resolutions; randomness outside the wrapped primitives is detected on the global generators' state / private generators and such runs (plus a sample of draw-free runs) are repeated under three real seeds; runs with identical tiebreak records must have one outcome",
   text="Non-random rules are run on profiles engineered to tie at the seat boundary, at the elimination end and nowhere; runs that draw randomness are re-executed over the scripted choice tree; each recorded tiebreak must be a strict order of a genuinely tied, order-relevant set that the round's groups obey, and score tiebreaks must be non-increasing on the reference score of the profile the rule passes.",
   note="'Deciding tally' is read per rule (DESIGN §4 C10). Randomness that does not influence the outcome is not flagged.",
   ref="§4 C10"),
 "C11": dict(
   technique="runtime monitor: constructor post-conditions (exact rationals), mutation attempts on every field, content-multiset algebra for condense / == / + over all ballot orders",
   text="Ballots and profiles are built from int/float/Fraction inputs and mixtures of ranked, scored and empty ballots in several (thorough: all) orders; every field assignment must raise and leave the value unchanged; condensing must preserve the (ranking, scores) content multiset, be distinct, idempotent and order independent; == must coincide with multiset equality in both operand orders; + must add.",
   note="Equality is not exercised with zero-weight ballots; Fractions with denominators above 10^6 may be kept or rounded.",
   ref="§4 C11"),
 "C12": dict(
   technique="runtime monitor: independent per-ballot image oracle and multiset conservation for every editing utility; reference scorer for the 'totals unchanged' clause",
   text="remove_cand (profile / tuple / single ballot, all flag combinations), add_missing_cands, expand_tied_ballot, resolve_profile_ties and the cleaning functions are called on generated inputs; the result multiset {ranking -> weight} must equal the summed weights of the inputs mapping to each image, order and grouping preserved, expansions exactly the linear extensions.",
   note="clean_profile merges only adjacent equal rankings: compared as multisets. remove_noncands may or may not de-duplicate repeats.",
   ref="§4 C12"),
 "C13": dict(
   technique="differential runtime monitor: alias/composite rule vs its documented composition under the same positional RNG script, compared when both sides met the same choice points",
   text="IRV vs STV(m=1), SNTV vs Plurality, SequentialRCV vs STV with the harness's own full-weight transfer, TopTwo vs a reference two-stage count, Alaska vs Plurality(m_1) then STV(m_2) on the harness-reduced profile with rounds renumbered: canonical all-round equality.",
   note="Alaska constructions that raise (known finding replay-redraw of C01) are not compared.",
   ref="§4 C13"),
 "C14": dict(
   technique="runtime monitor: structural well-formedness post-conditions on every generator entry point (by_bloc and plain, direct and from_params construction); Huntington-Hill validity oracle (divisor min-max inequality) for bloc sizes and crossover splits",
   text="All generator classes and entry points (generate_profile, by_bloc, MCMC variants, generate_profile_with_dict) are run on generated parameter sets (1-3 blocs, slate sizes 1-3, 0/1 cohesion and proportions, zero-support candidates, N from 1); totals, integer weights, declared candidates, completeness, final zero-support tie, short-PL length, cumulative points, bloc additivity and apportionment are asserted.",
   note="Known findings by mechanism: apportionment library hands ballots to zero-proportion types when N < #types; MCMC samplers crash on single-state chains.",
   ref="§4 C14"),
 "C15": dict(
   technique="differential runtime monitor: every closed-form table recomputed from its definition in exact rationals of the float inputs, compared cell by cell",
   text="PreferenceInterval, combine_preference_intervals, pref_interval_by_bloc, name_BradleyTerry.pdfs_by_bloc and slate_BradleyTerry.ballot_type_pdf are built on generated intervals (1-7 candidates, supports over six orders of magnitude, zero supports, cohesion in (0,1) and at the ends, 1-3 blocs) and compared with exact recomputation: same keys, cells within 1e-9 relative, sum 1.",
   note="Float inputs are read as their exact binary value.",
   ref="§4 C15"),
 "C16": dict(
   technique="law-mode RNG interposition (arguments of np.random.choice / uniform matched to the model's interval per bloc and slate, drawn orders traced onto the ballots), MCMC kernel extraction by scripted single steps + detailed-balance check, end-to-end frequency tests with Hoeffding thresholds, spatial rankings recomputed from returned positions; MCMC trajectory validation through the public entry points (proposals and acceptance uniforms scripted, every returned ballot must be the Metropolis chain's state); what slate_PlackettLuce asks its pattern sampler for; per-model minimum observations",
   text="Each distribution clause is decided twice: exactly, by checking what is handed to the sampling primitive and how its result is used (trusting the primitive's documented semantics), and end-to-end by 20k (thorough 200k) ballot frequency tests against closed forms with an explicit false-alarm bound of 1e-9 per test. MCMC samplers are decided by extracting the kernel one scripted step at a time and checking detailed balance against the closed-form table.",
   note="Frequency tests only bound deviations above the stated threshold (~2.5% quick, ~0.8% thorough).",
   ref="§4 C16"),
 "C17": dict(
   technique="law-mode RNG interposition on random.choices / random.uniform / np.random.choice / random.sample along scripted paths, closed-form recursion for winner sequences, exact single-draw law extraction (grid + bisection on a scripted uniform) when the draw does not go through random.choices, frequency tests with Hoeffding thresholds; random-tiebreak law for the composite, pairwise and all score rules",
   text="RandomDictator and BoostedRandomDictator are run under scripted streams: each ballot draw must offer exactly the current profile's ballots with their weights (induced law = first-place share with ties split), the boosted rule's branch is probed at u = tau +- 1e-9 for every tau = 1/(c-1), the squares branch's (candidates, p) compared with squared shares; random tiebreaks must permute exactly the tied set uniformly and be recorded as drawn; winner-sequence frequencies are compared with the closed form.",
   note="Trusts the documented semantics of the primitives; frequency tests bound only deviations above the threshold.",
   ref="§4 C17"),
 "C18": dict(
   technique="runtime monitor: expected profile computed from the generated file itself (table oracle), documented-error table for malformed variants, to_csv parsed back",
   text="load_csv is called on generated tables with every kind of column layout (id / weight column at any position, subsets and re-orderings of rank_cols, four delimiters, names needing quoting) and must return exactly one ballot per distinct selected-column pattern with the row count or weight sum; load_scottish on generated files; the four documented errors; to_csv rows parsed back.",
   note="Candidate names are non-numeric strings (pandas re-types numeric cells).",
   ref="§4 C18"),
 "C19": dict(
   technique="runtime monitor: exact rational p-norm reference and metric axioms on generated triples; exhaustive node/edge comparison of BallotGraph(n), n=2..6, with an explicit reference graph (n=1..6)",
   text="lp_dist is compared with the exact p-norm for p in {1,2,3,5,inf}, must be exactly 0 for reordered / condensed / rescaled / split copies, symmetric and triangular; BallotGraph(n) is enumerated completely for n=2..6 on every run; loading profiles puts every ballot's weight on its node.",
   note="Tolerances: value 1e-9 relative, symmetry/triangle 1e-12.",
   ref="§4 C19"),
 "C20": dict(
   technique="table-driven runtime monitor: for each documented precondition, smallest-margin and gross violations (offending ballot at any position) must raise the documented exception type and the boundary-valid twin must be accepted",
   text="About 200 rows per repetition over all rules, transfers, scoring helpers, generators and profiles: missing rankings/scores, tied positions for the STV family, non-integer weights, seat counts 0, -1, n+1 vs 1 and n, Alaska stage sizes, negative/increasing score vectors, non-positive or inconsistent limits and budgets, unknown quota names, sums off by 1e-6 vs 1e-12, mismatched bloc names, overlapping intervals, duplicate candidates.",
   note="pydantic ValidationError counts as ValueError. A mismatch inside one bloc's cohesion dictionary is not judged.",
   ref="§4 C20"),
}
STATEFUL = ("; stateful workloads: the same object used twice, look-alike requests back to back in one process (siblings, decoys), "
            "inputs asserted unchanged, repeated requests must meet the same random choice points; scale / magnitude slices "
            "(8-12 candidates, dozens of ballots, weights 10^-20..10^18, near-ties one unit apart beyond 2^53) and non-default "
            "options / argument types where the property covers them")


def main():
    checks = []
    for pid in ALL:
        if pid not in CHECKS: continue
        c = CHECKS[pid]
        checks.append({
          "property_id": pid,
          "quick_cmd": f"./check {pid} quick",
          "thorough_cmd": f"./check {pid} thorough",
          "evidence_file": f"evidence/{pid}.json",
          "replay_cmd_template": f"./check {pid} --replay {{path}}",
          "engine": "vk",
          "level_claimed": {"category": c.get("level", "exploration"), "text": c["text"], "design_ref": c["ref"]},
          "level_note": c["note"],
          "technique": c["technique"] + STATEFUL,
        })
    man = {
      "version": 1,
      "setup_cmd": "./setup.sh",
      "hooks": {"guard": "VOTEKIT_VERIF", "enable": "no source hooks: every observation point is reachable from the harness (public API, template methods, module-attribute RNG calls); checks import /repo/src directly in fresh interpreters",
                "baseline_off_cmd": "cd /repo && /venv/bin/python -m pytest -ra -q -p no:cacheprovider --timeout=900 --continue-on-collection-errors",
                "source_commits": [], "add_only": True},
      "engines": [{"name": "vk", "path": "vk/", "serves_properties": sorted(CHECKS),
                   "kind_free_text": "runtime monitors over real executions of /repo/src: sharded subprocess driver, seeded hostile workload generators, RNG interposition (tap/script/enumerate), exact-rational reference models, mechanism-keyed known findings"}],
      "checks": checks,
      "not_applicable": [{"property_id": p, "reason": "check not built yet in this session (planned, see DESIGN.md §4)"} for p in ALL if p not in CHECKS],
      "notes": "All checks: ./check <ID> <quick|thorough>; exit 0 held-on-observed (KNOWN-FINDING lines allowed), 1 VIOLATION, 2 INCONCLUSIVE. VERIF_SEED reseeds every generator.",
    }
    json.dump(man, open(os.path.join(HERE, "MANIFEST.json"), "w"), indent=1)
if __name__ == "__main__":
    main()
