"""Oracles shared by election monitors: when is ValueError allowed/required (C01
exception policy), and the mechanism classifier behind known_findings.json."""
from fractions import Fraction as F

from .ref import scoring, stv as refstv
from . import rules


def untied(ballots):
    return [(tuple(g[0] for g in r), w) for r, w, _ in ballots]


def restrict(ballots, keep):
    out = []
    for r, w, s in ballots:
        r2 = tuple(tuple(c for c in g if c in keep) for g in r)
        r2 = tuple(g for g in r2 if g)
        if r2:
            out.append((r2, w, s))
    return out


def deciding_scores(cfg, cands, ballots):
    r = cfg["rule"]
    if r in ("Plurality", "SNTV"):
        return scoring.first_place(cands, ballots)
    if r == "Borda":
        vec = cfg.get("score_vector")
        if vec is None:
            return scoring.borda(cands, ballots)
        from .canon import pf

        return scoring.positional(cands, ballots, [pf(v) for v in vec])
    if r in rules.SCORE_RULES:
        return scoring.rating_totals(cands, ballots)
    raise KeyError(r)


def stv_ref(cfg, cands, ballots):
    r = cfg["rule"]
    m = 1 if r == "IRV" else cfg.get("m", 1)
    sim = True if r == "IRV" else cfg.get("sim", True)
    return refstv.Ref(cands, untied(ballots), m, cfg.get("quota", "droop"), sim,
                      full_weight=(r == "SequentialRCV"))


def valueerror_policy(cfg, cands, ballots):
    """returns (allowed, required, why).  Only meaningful for tiebreak None."""
    r = cfg["rule"]
    if cfg.get("tiebreak") is not None:
        return False, False, "tiebreak requested"
    if r in ("Plurality", "SNTV", "Borda") or r in rules.SCORE_RULES:
        sc = deciding_scores(cfg, cands, ballots)
        t = scoring.boundary_tie(sc, cfg.get("m", 1))
        return (t is not None, t is not None, f"boundary tie {sorted(t)}" if t else "no boundary tie")
    if r == "TopTwo":
        if len(cands) < 2:
            return False, False, "single candidate"
        sc = scoring.first_place(cands, ballots)
        t = scoring.boundary_tie(sc, 2)
        if t is not None:
            return True, True, "stage-1 boundary tie"
        top2 = [c for g in scoring.grouped(sc) for c in g][:2]
        top2 = [c for c in cands if c in top2]
        sc2 = scoring.first_place(top2, restrict(ballots, set(top2)))
        t2 = scoring.boundary_tie(sc2, 1)
        return (t2 is not None, t2 is not None, "stage-2 tie" if t2 else "no tie")
    if r == "Alaska":
        sc = scoring.first_place(cands, ballots)
        t = scoring.boundary_tie(sc, cfg["m_1"])
        if t is not None:
            return True, True, "stage-1 boundary tie"
        keep = set([c for g in scoring.grouped(sc) for c in g][: cfg["m_1"]])
        c2 = [c for c in cands if c in keep]
        sub = dict(cfg)
        sub.update(rule="STV", m=cfg["m_2"])
        return valueerror_policy(sub, c2, restrict(ballots, keep))
    if r in rules.STV_FAMILY:
        ref = stv_ref(cfg, cands, ballots)
        if ref.sim:
            return False, False, "simultaneous STV never needs an election tiebreak"
        fl = ref.analyze()
        return fl["elect_tie"], False, "one-by-one election tie reachable" if fl["elect_tie"] else "no election tie"
    return False, False, "rule has no ValueError path"


def mentioned(ballots):
    return {c for r, w, _ in ballots if w > 0 for g in (r or ()) for c in g}


def classify(cfg, cands, ballots, symptom, rng_events=()):
    """mechanism key of a failed run (predicate over the input and the reference model
    plus the symptom), or None.  Keys correspond to known_findings.json entries."""
    r = cfg["rule"]
    st = symptom  # exception type name, or 'seatcount' / 'round-budget' / 'call-budget'
    if r in rules.SCORE_RULES and st == "TypeError" and any(
            rr and sc and {c for g in rr for c in g} - {c for c, v in sc.items() if v != 0} for rr, w, sc in ballots):
        # the mirror image: a scored ballot that also RANKS a candidate it does not score outlives its scores (the winners it
        # scored are removed, the ranking keeps it alive) and the next round of the score rule finds a ballot without scores
        return "mixed-ballot-scores-exhausted"
    if r in rules.RANKING_RULES and st == "TypeError" and any(
            rr and sc and set(sc) - {c for g in rr for c in g} for rr, w, sc in ballots):
        # a ballot with a ranking AND scores for a candidate it does not rank: when its ranked candidates have all been elected
        # or eliminated, remove_cand keeps it (it still has scores) without a ranking, and the next round of a ranking rule
        # refuses the profile it produced itself ("Ballots must have rankings")
        return "mixed-ballot-ranking-exhausted"
    if r in rules.STV_FAMILY or r == "Alaska":
        if any(e.get("short") for e in rng_events) and st == "ValueError":
            return "random-transfer-short"
        stages = []
        if r == "Alaska":
            sc = scoring.first_place(cands, ballots)
            order = scoring.grouped(sc)
            sure, tied, need = [], None, cfg["m_1"]
            for g in order:
                if len(sure) + len(g) <= need:
                    sure += sorted(g)
                else:
                    tied = sorted(g)
                    break
                if len(sure) == need:
                    break
            import itertools

            combos = [()] if tied is None else list(itertools.combinations(tied, need - len(sure)))[:20]
            for extra in combos:
                keep = set(sure) | set(extra)
                sub = dict(cfg)
                sub.update(rule="STV", m=cfg["m_2"])
                stages.append((sub, [c for c in cands if c in keep], restrict(ballots, keep)))
        else:
            stages.append((cfg, cands, ballots))
        for sub, c2, b2 in stages:
            fl = stv_ref(sub, c2, b2).analyze()
            if (fl["over_quota"] or fl["zero_quota"]) and st in ("IndexError", "ZeroDivisionError", "seatcount",
                                                                   "KeyError", "round-budget"):
                return "stv-overquota"
            if r == "Alaska" and st in ("KeyError", "IndexError"):
                # the constructor replays the STV stage; replay re-draws every random choice
                if cfg.get("transfer") == "random" and fl["surplus_transfer"]:
                    return "replay-redraw"
                if fl["elim_tie_random"] or (fl["elect_tie"] and cfg.get("tiebreak") is not None):
                    return "replay-redraw"
    if r in ("RandomDictator", "BoostedRandomDictator"):
        if len(mentioned(ballots)) < cfg.get("m", 1) and st in ("IndexError", "ValueError", "ZeroDivisionError"):
            return "dictator-exhausted"
    if r == "PluralityVeto":
        fp = scoring.first_place(cands, ballots)
        pos = sum(1 for c in cands if fp[c] > 0)
        m = cfg.get("m", 1)
        # round 1 removes every zero-first-place candidate *and* keeps vetoing until one more falls,
        # so the number of standing candidates can skip past m and never equals it again
        if len(cands) > m and pos < len(cands) and pos <= m and st in ("round-budget", "call-budget"):
            return "pv-starved"
        if cfg.get("tiebreak") in ("borda", "first_place") and st == "TypeError" and any(
                len(g) > 1 for rr, w, _ in ballots for g in rr):
            return "pv-tiebreak-exhausted"
    if r == "TopTwo" and len(cands) == 1 and st == "ValueError":
        return "toptwo-single"
    return None
