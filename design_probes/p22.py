import sys, random, itertools, math, collections
sys.path[:0] = ['/repo/src', __import__('os').path.join(__import__('os').path.dirname(__import__('os').path.abspath(__file__)) if '__file__' in globals() else '.', 'shim')]
from fractions import Fraction as F
from votekit import Ballot, PreferenceProfile
import votekit.utils as U, votekit.cleaning as C
rnd=random.Random(7)
bad=collections.Counter()
def rank_tied(c):
    cs=rnd.sample(c, rnd.randint(1,len(c))); r=[]
    while cs:
        k=rnd.randint(1,min(3,len(cs))); r.append(frozenset(cs[:k])); cs=cs[k:]
    return tuple(r)
def ms(ballots):
    d=collections.defaultdict(F)
    for b in ballots: d[b.ranking]+=b.weight
    return {k:v for k,v in d.items() if v!=0}
for it in range(2500):
    c=list('ABCDE')[:rnd.randint(1,5)]
    bl=[Ballot(ranking=rank_tied(c), weight=rnd.choice([F(1),F(2),F(1,3)])) for _ in range(rnd.randint(1,6))]
    prof=PreferenceProfile(ballots=tuple(bl), candidates=tuple(c))
    rem=rnd.sample(c+['ZZ'], rnd.randint(0,len(c)))
    def img(b):
        return tuple(s2 for s2 in (frozenset(x for x in s if x not in rem) for s in b.ranking) if s2)
    exp=collections.defaultdict(F)
    for b in bl:
        if img(b): exp[img(b)]+=b.weight
    for condense in (True,False):
      for lz in (True,False):
        for kind in ('profile','tuple'):
            try:
                out=U.remove_cand(rem, prof if kind=='profile' else tuple(bl), condense=condense, leave_zero_weight_ballots=lz)
                obs=out.ballots if kind=='profile' else out
                got={k:v for k,v in ms(obs).items() if k}
                if got!=dict(exp): bad[('remove_cand',kind,condense,lz)]+=1
                if kind=='profile' and set(out.candidates)!=set(c)-set(rem): bad['cands']+=1
            except BaseException as e:
                bad[('remove_cand EXC',kind,type(e).__name__)]+=1
    # single ballot
    b=bl[0]
    try:
        o=U.remove_cand(rem,b)
        if (o.ranking or ())!=img(b) or (img(b) and o.weight!=b.weight): bad['single']+=1
    except IndexError:
        bad['single IndexError '+('(exhausted)' if not img(b) else 'UNEXPECTED')]+=1
    # add_missing
    o=U.add_missing_cands(prof)
    e2=collections.defaultdict(F)
    for b in bl:
        miss=frozenset(c)-{x for s in b.ranking for x in s}
        e2[b.ranking+((miss,) if miss else ())]+=b.weight
    if ms(o.ballots)!=dict(e2): bad['add_missing']+=1
    # expand
    b=bl[0]
    ex=U.expand_tied_ballot(b)
    n=math.prod(math.factorial(len(s)) for s in b.ranking)
    if len(ex)!=n or len({x.ranking for x in ex})!=n or sum(x.weight for x in ex)!=b.weight or any(x.weight!=b.weight/n for x in ex): bad['expand']+=1
    for x in ex:
        flat=[next(iter(s)) for s in x.ranking]
        pos={cc:i for i,s in enumerate(b.ranking) for cc in s}
        if any(len(s)!=1 for s in x.ranking) or [pos[cc] for cc in flat]!=sorted(pos[cc] for cc in flat) or set(flat)!=set(pos): bad['expand order']+=1
    # cleaning on untied
    ubl=[Ballot(ranking=tuple(frozenset([x]) for x in [rnd.choice(c) for _ in range(rnd.randint(1,4))]), weight=rnd.choice([F(1),F(2)])) for _ in range(rnd.randint(1,6))]
    up=PreferenceProfile(ballots=tuple(ubl))
    o=C.deduplicate_profiles(up)
    e3=collections.defaultdict(F)
    for b in ubl:
        seen=[]; 
        for s in b.ranking:
            if s not in seen: seen.append(s)
        e3[tuple(seen)]+=b.weight
    if ms(o.ballots)!=dict(e3): bad['dedup']+=1
    nc=rnd.sample(c, rnd.randint(0,len(c)))
    o=C.remove_noncands(up, nc)
    e4=collections.defaultdict(F)
    for b in ubl:
        seen=[]
        for s in b.ranking:
            if next(iter(s)) not in nc and s not in seen: seen.append(s)
        if seen: e4[tuple(seen)]+=b.weight
    if ms(o.ballots)!=dict(e4): bad['noncands']+=1
print(bad)
