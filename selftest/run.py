#!/usr/bin/env python3
"""Teeth test for the monitors (development-time; not registered in MANIFEST).

Each entry is a small property-breaking edit of /repo/src that still imports.  The runner copies
/repo/src to a scratch directory outside /repo and /verif, applies ONE edit, runs the named quick
checks with VK_REPO_SRC=<scratch>/src and expects exit code 1 (VIOLATION); the copy is removed.

usage: selftest/run.py [name-substring ...]
"""
import os
import shutil
import subprocess
import sys
import tempfile

HERE = os.path.dirname(os.path.dirname(os.path.abspath(__file__)))
SRC = "/repo/src"

M = [
    # (name, file, old, new, checks expected to fire)
    ("stv-quota-plus1-dropped", "votekit/elections/election_types/ranking/stv.py",
     "return int(total_ballot_wt / (self.m + 1) + 1)", "return int(total_ballot_wt / (self.m + 1))", ["C02", "C07"]),
    ("stv-ge-to-gt", "votekit/elections/election_types/ranking/stv.py",
     "c for c, score in prev_state.scores.items() if score >= self.threshold", "c for c, score in prev_state.scores.items() if score > self.threshold", ["C02"]),
    ("transfer-factor-inverted", "votekit/elections/transfers.py",
     "transfer_value = (fpv - threshold) / fpv", "transfer_value = threshold / fpv", ["C02", "C03"]),
    ("stv-eliminate-first-of-tiebreak", "votekit/elections/election_types/ranking/stv.py",
     "eliminated_cand = list(tiebroken_ranking[-1])[0]", "eliminated_cand = list(tiebroken_ranking[0])[0]", ["C02", "C10"]),
    ("stv-elim-tiebreak-not-recorded", "votekit/elections/election_types/ranking/stv.py",
     "tiebreaks = {lowest_fpv_cands: tiebroken_ranking}", "tiebreaks = {}", ["C10"]),
    ("stv-elim-tiebreak-borda-instead-of-fpv", "votekit/elections/election_types/ranking/stv.py",
     'lowest_fpv_cands, self.get_profile(0), tiebreak="first_place"', 'lowest_fpv_cands, self.get_profile(0), tiebreak="borda"', ["C02", "C10"]),
    ("stv-elim-tiebreak-current-profile", "votekit/elections/election_types/ranking/stv.py",
     'lowest_fpv_cands, self.get_profile(0), tiebreak="first_place"', 'lowest_fpv_cands, profile, tiebreak="first_place"', ["C02", "C10"]),
    ("score-dict-ranking-no-grouping", "votekit/utils.py",
     "                frozenset(c_list)\n                for _, c_list in sorted(",
     "                frozenset([c])\n                for _, c_list in sorted(", ["C04"]),
    ("elect-cands-remaining-dropped", "votekit/utils.py",
     "                remaining = list(tiebroken_ranking[(m - num_elected) :])", "                remaining = list(tiebroken_ranking[(m - num_elected) + 1 :])", ["C01"]),
    ("condense-by-ranking-only", "votekit/pref_profile.py",
     "    scores = frozenset(ballot.scores.items()) if ballot.scores else frozenset()\n    return (ranking, scores)",
     "    return (ranking,)", ["C11"]),
    ("remove-cand-resorts-positions", "votekit/utils.py",
     "                if len(new_s) > 0:\n                    new_ranking.append(frozenset(new_s))",
     "                if len(new_s) > 0:\n                    new_ranking.append(frozenset(new_s))\n            new_ranking.sort(key=len)", ["C12"]),
    ("apportion-by-rounding-all", "votekit/ballot_generator.py",
     'apportion.compute("huntington", bloc_props, number_of_ballots)', '[round(x * number_of_ballots) for x in bloc_props]', ["C14"]),
    ("name-pl-p-misaligned", "votekit/ballot_generator.py",
     "                self.pref_interval_by_bloc[bloc].interval[c] for c in non_zero_cands\n            ]",
     "                self.pref_interval_by_bloc[bloc].interval[c] for c in sorted(non_zero_cands)\n            ]", ["C16"]),
    ("bt-mcmc-acceptance-inverted", "votekit/ballot_generator.py",
     "                pref_interval[next(iter(current_ranking[j2]))]\n                / pref_interval[next(iter(current_ranking[j1]))],",
     "                pref_interval[next(iter(current_ranking[j1]))]\n                / pref_interval[next(iter(current_ranking[j2]))],", ["C16"]),
    ("slate-bt-mcmc-aliased-states", "votekit/ballot_generator.py",
     "            ballots[i] = current_ranking.copy()", "            ballots[i] = current_ranking", ["C16"]),
    ("name-bt-mcmc-proposal-index-stuck-after-first-accept", "votekit/ballot_generator.py",
     "            j1, j2 = swap_indices[i]\n            acceptance_prob = min(\n                1,\n                pref_interval",
     "            j1, j2 = swap_indices[i if accept < 2 else accept]\n            acceptance_prob = min(\n                1,\n                pref_interval", ["C16"]),
    ("pairwise-tied-position-not-counted", "votekit/graphs/pairwise_comparison_graph.py",
     "                if cand1 in s:", "                if s == {cand1}:", ["C06"]),
    ("score-vector-padding-needs-list", "votekit/utils.py",
     "score_vector = list(score_vector) + [0]", "score_vector = score_vector + [0]", ["C04"]),
    ("losers-lumped-into-one-group", "votekit/utils.py",
     "    return (tuple(elected), ranking[i:], tiebreak_ranking)",
     "    return (tuple(elected), ((frozenset(c for s_ in ranking[i:] for c in s_),) if i < len(ranking) else ()), tiebreak_ranking)", ["C04"]),
    ("stv-one-by-one-tie-silently-random-after-round-1", "votekit/elections/election_types/ranking/stv.py",
     "            ranking_by_fpv, m=1, profile=profile, tiebreak=self.tiebreak\n",
     "            ranking_by_fpv, m=1, profile=profile, tiebreak=self.tiebreak if prev_state.round_number == 0 else (self.tiebreak or \"random\")\n", ["C02"]),
    ("alaska-stv-stage-ignores-transfer-option", "votekit/elections/election_types/ranking/alaska.py",
     "                profile,\n                self.m_2,\n                self.transfer,",
     "                profile,\n                self.m_2,\n                fractional_transfer,", ["C13"]),
    ("alaska-replay-ignores-transfer-option", "votekit/elections/election_types/ranking/alaska.py",
     "                self.get_profile(1),  # plurality profile\n                self.m_2,\n                self.transfer,",
     "                self.get_profile(1),  # plurality profile\n                self.m_2,\n                fractional_transfer,", ["C09"]),
    ("stv-tied-position-check-first-position-only", "votekit/elections/election_types/ranking/stv.py",
     "            elif any(len(s) > 1 for s in ballot.ranking):", "            elif len(ballot.ranking[0]) > 1:", ["C20"]),
    ("cambridge-voter-types-from-other-blocs-cohesion", "votekit/ballot_generator.py",
     "        cohesion_parameters = {b: self.cohesion_parameters[b][b] for b in self.blocs}\n\n        # compute the number of bloc and crossover voters in each bloc using Huntington Hill\n        voter_types = [\n            (b, t) for b in list(self.bloc_voter_prop.keys()) for t in [\"bloc\", \"cross\"]",
     "        cohesion_parameters = {b: self.cohesion_parameters[o][o] for b, o in zip(self.blocs, self.blocs[::-1])}\n\n        # compute the number of bloc and crossover voters in each bloc using Huntington Hill\n        voter_types = [\n            (b, t) for b in list(self.bloc_voter_prop.keys()) for t in [\"bloc\", \"cross\"]", ["C14"]),
    ("profile-cast-candidates-count-zero-weight-ballots", "votekit/pref_profile.py",
     "            if ballot.weight > 0:", "            if ballot.weight >= 0:", ["C11"]),
    ("slate-pl-patterns-from-first-blocs-cohesion", "votekit/ballot_generator.py",
     "                cohesion_parameters_for_bloc=self.cohesion_parameters[bloc],",
     "                cohesion_parameters_for_bloc=self.cohesion_parameters[self.blocs[0]],", ["C16"]),
    ("ranking-dict-keys-flatten-tied-positions", "votekit/pref_profile.py",
     "            if not ranking:\n                ranking = (frozenset(),)\n            if standardize:",
     "            if not ranking:\n                ranking = (frozenset(),)\n            ranking = tuple(frozenset([c]) for s_ in ranking for c in sorted(s_, key=str))\n            if standardize:", ["C19"]),
    ("irv-forwards-hare-when-quota-left-at-default", "votekit/elections/election_types/ranking/stv.py",
     "        super().__init__(profile, m=1, quota=quota, tiebreak=tiebreak)",
     "        super().__init__(profile, m=1, quota=quota if quota != \"droop\" else \"hare\", tiebreak=tiebreak)", ["C13"]),
    ("load-csv-dropna", "votekit/cvr_loaders.py", "df.groupby(ranks, dropna=False)", "df.groupby(ranks, dropna=True)", ["C18"]),
    ("lp-root-omitted", "votekit/metrics/distances.py", "lp_dist = sum ** (1 / p_value)", "lp_dist = sum", ["C19"]),
    ("stv-m-bound-off-by-one", "votekit/elections/election_types/ranking/stv.py",
     "if m <= 0 or m > len(profile.candidates):", "if m <= 0 or m >= len(profile.candidates):", ["C20", "C01"]),
    ("first-place-ties-first-listed", "votekit/utils.py",
     "        profile, [1] + [0] * len(profile.candidates), to_float\n    )", "        profile, [1] + [0] * len(profile.candidates), to_float\n    ) if True else None", []),
    ("plurality-breaks-tie-silently", "votekit/utils.py",
     "            if not tiebreak:\n                raise ValueError(\n                    \"Cannot elect correct number of candidates without breaking ties.\"\n                )\n            else:",
     "            if not tiebreak:\n                tiebreak = \"random\"\n            if True:", ["C01", "C04", "C05"]),
    ("get-elected-off-by-one", "votekit/models.py",
     "                for state in self.election_states[: (round_number + 1)]\n                for s in state.elected",
     "                for state in self.election_states[: round_number]\n                for s in state.elected", ["C09", "C01"]),
    ("get-profile-mutates", "votekit/models.py",
     "        for i in range(round_number):\n            profile = self._run_step(profile, self.election_states[i])\n\n        return profile",
     "        for i in range(round_number):\n            profile = self._run_step(profile, self.election_states[i])\n        self.length = round_number\n        return profile", ["C09"]),
    ("pairwise-ties-one-direction", "votekit/graphs/pairwise_comparison_graph.py",
     "                pairwise_dict[(cand_b, cand_a)] = Fraction(0)", "                pass", ["C06"]),
    ("condo-borda-uses-fpv", "votekit/elections/election_types/ranking/condo_borda.py",
     'dt_ranking, self.m, profile, tiebreak="borda"', 'dt_ranking, self.m, profile, tiebreak="first_place"', ["C06", "C10"]),
    ("rating-limit-strict", "votekit/elections/election_types/scores/rating.py",
     "any(score > self.L for score in b.scores.values())", "any(score >= self.L for score in b.scores.values())", ["C05"]),
    ("rating-budget-not-checked-last", "votekit/elections/election_types/scores/rating.py",
     "        for b in profile.ballots:\n            if not b.scores:", "        for b in profile.ballots[:-1] if len(profile.ballots) > 1 else profile.ballots:\n            if not b.scores:", ["C05"]),
    ("irv-hare-default", "votekit/elections/election_types/ranking/stv.py",
     "        super().__init__(profile, m=1, quota=quota, tiebreak=tiebreak)", "        super().__init__(profile, m=1, quota=quota, tiebreak=tiebreak, simultaneous=False)", []),
    ("seqrcv-fractional", "votekit/elections/election_types/ranking/stv.py",
     "                lambda winner, fpv, ballots, threshold: remove_cand(\n                    winner, tuple(ballots)\n                )",
     "                fractional_transfer", ["C02", "C13"]),
    ("alaska-m1-off", "votekit/elections/election_types/ranking/alaska.py",
     "plurality = Plurality(profile, self.m_1, self.tiebreak)", "plurality = Plurality(profile, max(self.m_1 - 1, self.m_2), self.tiebreak)", ["C13"]),
    ("rd-unweighted", "votekit/elections/election_types/ranking/random_dictator.py",
     "random_ballot = random.choices(ballots, weights=weights, k=1)[0]", "random_ballot = random.choices(ballots, k=1)[0]", ["C17"]),
    ("brd-threshold", "votekit/elections/election_types/ranking/boosted_random_dictator.py",
     "elif u <= 1 / (len(remaining_cands) - 1):", "elif u <= 1 / len(remaining_cands):", ["C17"]),
    ("tiebreak-sorted-not-random", "votekit/utils.py",
     "frozenset({c}) for c in random.sample(list(r_set), k=len(r_set))", "frozenset({c}) for c in sorted(r_set)", ["C17"]),
    ("hash-order-instead-of-random-tiebreak", "votekit/utils.py",
     "frozenset({c}) for c in random.sample(list(r_set), k=len(r_set))", "frozenset({c}) for c in list(r_set)", ["C08", "C17"]),
    ("interval-no-normalise-combine", "votekit/pref_interval.py",
     "            key: value * prop\n", "            key: value * prop * prop\n", ["C15", "C16"]),
    ("slate-bt-pdf-swapped", "votekit/ballot_generator.py",
     "            return pow(cohesion, success) * pow(\n                1 - cohesion, total_comparisons - success\n            )",
     "            return pow(1 - cohesion, success) * pow(\n                cohesion, total_comparisons - success\n            )", ["C15"]),
    ("ballot-weight-float", "votekit/ballot.py",
     "            weight = Fraction(weight).limit_denominator()", "            weight = Fraction(weight).limit_denominator(1000)", ["C11"]),
    ("scottish-off-by-one", "votekit/cvr_loaders.py", "        num_to_cand[i + 1] = cand", "        num_to_cand[i + 1] = cand if i else cand", []),
    ("ballot-graph-missing-swap", "votekit/graphs/ballot_graph.py",
     "                (bal, (bal[1], bal[0]) + bal[2:]) for bal in nodes if len(bal) >= 2", "                (bal, (bal[1], bal[0]) + bal[2:]) for bal in nodes if len(bal) >= 3", ["C19"]),
    ("expand-ties-weight", "votekit/utils.py", "weight=ballot.weight / math.factorial(len(s)),", "weight=ballot.weight / len(s),", ["C12"]),
    # ---- second batch: entry points not touched by the first list
    ("cumulative-without-replacement", "votekit/ballot_generator.py",
     "                        p=cand_support_vec,\n                        replace=True,", "                        p=cand_support_vec,\n                        replace=False,", ["C16"]),
    ("ic-not-uniform", "votekit/ballot_generator.py", 'super().__init__(alpha=float("inf"), **data)', "super().__init__(alpha=1, **data)", ["C16"]),
    ("spatial-sort-reversed-all", "votekit/ballot_generator.py",
     "candidate_order = sorted(distance_dict, key=distance_dict.__getitem__)", "candidate_order = sorted(distance_dict, key=distance_dict.__getitem__, reverse=True)", ["C16"]),
    ("simplex-one-ballot-short", "votekit/ballot_generator.py",
     "            a=len(perm_rankings), size=number_of_ballots, p=draw_probabilities\n        )\n        ballot_pool = [perm_rankings[indices[i]] for i in range(number_of_ballots)]",
     "            a=len(perm_rankings), size=number_of_ballots, p=draw_probabilities\n        )\n        ballot_pool = [perm_rankings[indices[i]] for i in range(max(number_of_ballots - 1, 1))]", ["C14"]),
    ("ac-crossover-count-off-by-one", "votekit/ballot_generator.py", "                if i < num_cross_ballots:", "                if i <= num_cross_ballots:", ["C14", "C16"]),
    ("to-csv-weight-int", "votekit/pref_profile.py", '"weight": float(ballot.weight),', '"weight": int(ballot.weight),', ["C18"]),
    ("lp-inf-min", "votekit/metrics/distances.py", "        return max(diff)", "        return min(diff)", ["C19"]),
    ("ballotgraph-fix-short-off", "votekit/graphs/ballot_graph.py",
     "if len(ballot_node) == len(self.candidates) - 1 and fix_short:", "if len(ballot_node) == len(self.candidates) - 2 and fix_short:", ["C19"]),
    # (an earlier entry relaxed Alaska's m_1 < m_2 test; that is not a break: the STV stage still raises ValueError in the constructor)
    ("stv-seat-bound-off-by-one", "votekit/elections/election_types/ranking/stv.py", "        if m <= 0 or m > len(profile.candidates):", "        if m <= 0 or m > len(profile.candidates) + 1:", ["C20"]),
    ("pv-noninteger-accepted", "votekit/elections/election_types/ranking/plurality_veto.py",
     "            elif int(ballot.weight) != ballot.weight:", "            elif False:", ["C20"]),
    ("quota-unknown-defaults-to-hare", "votekit/elections/election_types/ranking/stv.py",
     '                raise ValueError("Misspelled or unknown quota type.")', "                return int(total_ballot_wt / self.m)", ["C20"]),
    ("sntv-ignores-tiebreak", "votekit/elections/election_types/ranking/plurality.py",
     "        super().__init__(profile, m, tiebreak)", "        super().__init__(profile, m, None)", ["C13"]),
    ("irv-quota-not-forwarded", "votekit/elections/election_types/ranking/stv.py",
     "        super().__init__(profile, m=1, quota=quota, tiebreak=tiebreak)", '        super().__init__(profile, m=1, quota="droop", tiebreak=tiebreak)', ["C13"]),
    ("rating-totals-ignore-weight", "votekit/utils.py", "                scores[c] += score * ballot.weight", "                scores[c] += score", ["C05"]),
    ("status-df-round-off", "votekit/models.py",
     'status_df.at[c, "Status"] = "Elected"\n                    status_df.at[c, "Round"] = i + 1', 'status_df.at[c, "Status"] = "Elected"\n                    status_df.at[c, "Round"] = i', ["C09"]),
    ("score-tiebreak-ascending", "votekit/utils.py",
     "        new_ranking = score_dict_to_ranking(tiebreak_scores)", "        new_ranking = score_dict_to_ranking(tiebreak_scores, sort_high_low=False)", ["C10"]),
    ("ballot-not-frozen", "votekit/ballot.py",
     "@dataclass(frozen=True, config=ConfigDict(arbitrary_types_allowed=True))\nclass Ballot:", "@dataclass(frozen=False, config=ConfigDict(arbitrary_types_allowed=True))\nclass Ballot:", ["C11"]),
    ("interval-zero-support-kept", "votekit/pref_interval.py",
     "                {c: s for c, s in self.interval.items() if s > 0}", "                {c: s for c, s in self.interval.items() if s >= 0}", ["C15", "C14"]),
    ("brd-cubes", "votekit/elections/election_types/ranking/boosted_random_dictator.py", "            p = np.power(p, 2)", "            p = np.power(p, 3)", ["C17"]),
    ("add-missing-cands-drops-duplicates-weight", "votekit/utils.py",
     "    return PreferenceProfile(\n        ballots=tuple(new_ballots), candidates=tuple(candidates)\n    ).condense_ballots()",
     "    return PreferenceProfile(\n        ballots=tuple(set(new_ballots)), candidates=tuple(candidates)\n    ).condense_ballots()", ["C12", "C04"]),
    ("scottish-weight-ignored", "votekit/cvr_loaders.py", "        ballot_weight = Fraction(line[0])", "        ballot_weight = Fraction(1)", ["C18"]),
    ("dedup-keeps-last", "votekit/cleaning.py",
     "            if cand in ranking and cand not in dedup_ranking:\n                dedup_ranking.append(cand)",
     "            if cand in dedup_ranking:\n                dedup_ranking.remove(cand)\n            dedup_ranking.append(cand)", ["C12"]),
    ("sorted-candidates-first-place-tiebreak-hash", "votekit/elections/election_types/ranking/stv.py",
     "            c = list(s)[0]  # all cands in set have same score", "            c = list(s)[0]  # all cands in set have same score", []),
]


def main():
    sel = sys.argv[1:]
    res = []
    for name, f, old, new, checks in M:
        if sel and not any(s in name for s in sel):
            continue
        if not checks or old == new:
            continue
        d = tempfile.mkdtemp(prefix="vk_selftest_")
        try:
            shutil.copytree(SRC, os.path.join(d, "src"))
            p = os.path.join(d, "src", f)
            s = open(p).read()
            if s.count(old) != 1 and not name.endswith("-all"):
                res.append((name, "PATCH-DOES-NOT-APPLY(%d)" % s.count(old), []))
                continue
            open(p, "w").write(s.replace(old, new))
            fired = []
            for c in checks:
                env = dict(os.environ, VK_REPO_SRC=os.path.join(d, "src"))
                r = subprocess.run([os.path.join(HERE, "check"), c, "quick"], cwd=HERE, env=env, capture_output=True, text=True)
                fired.append((c, r.returncode, sum(1 for ln in r.stdout.splitlines() if ln.startswith("VIOLATION"))))
            res.append((name, "ok", fired))
            print(name, fired, flush=True)
        finally:
            shutil.rmtree(d, ignore_errors=True)
    print("\nSUMMARY")
    missed = 0
    for name, st, fired in res:
        bad = [c for c, rc, n in fired if rc != 1]
        if st != "ok" or bad:
            missed += 1
        print(f"{'MISS' if (st != 'ok' or bad) else 'caught':6s} {name:45s} {st} {fired}")
    return 1 if missed else 0


if __name__ == "__main__":
    sys.exit(main())
