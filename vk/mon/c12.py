"""C12 — ballot-editing utilities preserve order and lose no votes except exhausted ones."""
import itertools
import math
from fractions import Fraction as F

from .. import canon, gen
from ..core import observe
from ..ref import scoring, pairwise

META = {
    "level": "exploration",
    "rule": ("cases = (profile / ballot tuple / single ballot with tied positions, partial ballots, rational weights, zero-vote "
             "candidates; set of candidates to remove: none, some, all, names not present; condense and "
             "leave_zero_weight_ballots flags) for utils.remove_cand / add_missing_cands / expand_tied_ballot / "
             "resolve_profile_ties, and untied ballots with repeated candidates for cleaning.remove_noncands / "
             "deduplicate_profiles / remove_empty_ballots / clean_profile / merge_ballots. Oracle: per-ballot image "
             "computed independently; result multiset {ranking -> weight} must equal the summed weights of the inputs "
             "mapping to it. distinct = hash(case); non-trivial = a removal that empties some ballots and merges two others."),
    "assumptions": ["cleaning functions merge only adjacent equal rankings: compared as multisets, not lists"],
    "min_obs": {"all": {"remove_cand_calls": 2000, "single_ballot_calls": 300, "emptied_and_merged": 100,
                        "expand_calls": 300, "cleaning_calls": 1000, "add_missing_calls": 300, "noncands_tied_calls": 200,
                        "expand_ballots_with_3plus_tied_positions": 30}},
}


def ms(ballots):
    d = {}
    for b in ballots:
        r = tuple(b.ranking) if b.ranking else ()
        d[r] = d.get(r, F(0)) + b.weight
    return {k: v for k, v in d.items() if v != 0}


def ms2(ballots):
    """content multiset including scores"""
    d = {}
    for b in ballots:
        k = (tuple(b.ranking) if b.ranking else (), frozenset((b.scores or {}).items()))
        d[k] = d.get(k, F(0)) + b.weight
    return {k: v for k, v in d.items() if v != 0}


def fs(r):
    return tuple(frozenset(g) for g in r)


def psn(x):
    """content snapshot of a profile / tuple of ballots / ballot, used to show that a utility left its input alone"""
    if hasattr(x, "ballots"):
        return (tuple(x.candidates), psn(tuple(x.ballots)), x.num_ballots, x.total_ballot_wt)
    if isinstance(x, (tuple, list)):
        return tuple(psn(b) for b in x)
    return (x.ranking, tuple(sorted((x.scores or {}).items())), x.weight, x.id)


def rsn(v):
    """order-free content of a result (profile, ballots, ballot)"""
    if hasattr(v, "ballots"):
        return (tuple(v.candidates), tuple(sorted(map(repr, ms2(v.ballots).items()))))
    if isinstance(v, (tuple, list)):
        return tuple(sorted(map(repr, ms2(v).items())))
    return psn(v)


def repeatable(ctx, case, label, fn, first, inputs, before):
    """the same call on the same objects once more: same answer, inputs untouched"""
    ctx.count("repeated_calls_on_same_objects")
    if [psn(x) for x in inputs] != before:
        ctx.fail(f"{label} changed its input", case, {})
        return False
    o = observe(fn)
    if not o.ok or rsn(o.value) != rsn(first):
        ctx.fail(f"{label}: a second call on the same objects gives another answer", case, {"second": repr(o)[:200]})
        return False
    if [psn(x) for x in inputs] != before:
        ctx.fail(f"{label} changed its input (second call)", case, {})
        return False
    return True


def check_remove(ctx, case):
    import votekit.utils as U

    spec, rem = case["profile"], case["remove"]
    prof = canon.build_profile(spec)
    bl = prof.ballots
    cands = spec["cands"]
    before = psn(prof)

    def img(b):
        return tuple(s2 for s2 in (frozenset(x for x in s if x not in rem) for s in (b.ranking or ())) if s2)

    def simg(b):
        return frozenset((c, v) for c, v in (b.scores or {}).items() if c not in rem)

    has_scores = any(b.scores for b in bl)
    exp = {}
    exp2 = {}
    emptied = 0
    for b in bl:
        i = img(b)
        if i:
            exp[i] = exp.get(i, F(0)) + b.weight
        else:
            emptied += 1
        if i or simg(b):
            exp2[(i, simg(b))] = exp2.get((i, simg(b)), F(0)) + b.weight
    merged = len({img(b) for b in bl if img(b)}) < len({b.ranking for b in bl if img(b)})
    nontriv = emptied > 0 and merged
    if nontriv:
        ctx.count("emptied_and_merged")
    ctx.case(case, nontrivial=nontriv)
    for condense in (True, False):
        for lz in (True, False):
            for kind in ("profile", "tuple"):
                arg = prof if kind == "profile" else tuple(bl)
                rm = rem if not (len(rem) == 1 and case.get("as_str")) else rem[0]
                o = observe(U.remove_cand, rm, arg, condense=condense, leave_zero_weight_ballots=lz)
                ctx.count("remove_cand_calls")
                lab = f"remove_cand({kind}, condense={condense}, leave_zero={lz})"
                if not o.ok:
                    if kind == "tuple" and not bl:
                        continue
                    ctx.fail(f"{lab} raised {o.etype}", case, {"msg": str(o.exc)[:200]})
                    return
                obs = o.value.ballots if kind == "profile" else o.value
                if any(b.weight != 0 for b in obs if not b.ranking and not b.scores):
                    ctx.fail(f"{lab}: a ballot that lists nobody carries weight in the result (votes created on an exhausted ballot)", case,
                             {"weights": [str(b.weight) for b in obs if not b.ranking and not b.scores]})
                    return
                if has_scores:
                    ctx.count("remove_cand_scored_calls")
                    got2 = {k: v for k, v in ms2(obs).items() if k[0] or k[1]}
                    if got2 != exp2:
                        ctx.fail(f"{lab}: with scored ballots, weight per resulting (ranking, scores) content differs from the summed "
                                 "weight of the inputs mapping to it (a ballot that still has a ranking or scores lost its votes?)",
                                 case, {"got": canon.multiset_c(got2), "exp": canon.multiset_c(exp2)})
                        return
                    continue
                got = {k: v for k, v in ms(obs).items() if k}
                if got != exp:
                    ctx.fail(f"{lab}: weight per resulting ranking differs from the summed weight of the inputs mapping to it",
                             case, {"got": canon.multiset_c({(k, frozenset()): v for k, v in got.items()}),
                                    "exp": canon.multiset_c({(k, frozenset()): v for k, v in exp.items()})})
                    return
                if any(c in rem for b in obs for g in (b.ranking or ()) for c in g):
                    ctx.fail(f"{lab}: a removed candidate still appears", case, {})
                    return
                if kind == "profile" and list(o.value.candidates) != [c for c in cands if c not in rem]:
                    if set(o.value.candidates) != set(cands) - set(rem):
                        ctx.fail(f"{lab}: candidate list is not the original minus the removed", case,
                                 {"cands": list(map(str, o.value.candidates))})
                        return
                if not lz and any(b.weight <= 0 or not (b.ranking or b.scores) for b in obs):
                    ctx.fail(f"{lab}: zero-weight/empty ballots left although not requested", case, {})
                    return
                if condense and len({(tuple(b.ranking) if b.ranking else (), frozenset((b.scores or {}).items())) for b in obs}) != len(obs):
                    ctx.fail(f"{lab}: condensed result has duplicate ballots", case, {})
                    return
    if psn(prof) != before:
        ctx.fail("remove_cand changed its input profile", case, {})
        return
    # single ballot form
    for b in bl[:2]:
        o = observe(U.remove_cand, rem, b)
        ctx.count("single_ballot_calls")
        i = img(b)
        if not o.ok:
            ctx.fail(f"remove_cand(single ballot) raised {o.etype}", case,
                     {"msg": str(o.exc)[:200], "ballot": canon.groups(b.ranking), "image_empty": not i},
                     mech="remove-cand-single-empty" if (not i and o.etype == "IndexError") else None)
            continue
        r = o.value
        if (tuple(r.ranking) if r.ranking else ()) != i or (i and r.weight != b.weight):
            ctx.fail("remove_cand(single ballot): wrong image", case, {"got": canon.groups(r.ranking or ()), "exp": canon.groups(i)})
            return
        # the scores of the surviving candidates stay with the ballot, and a ballot that keeps a ranking OR scores keeps its weight
        si = simg(b)
        if frozenset((r.scores or {}).items()) != si:
            ctx.fail("remove_cand(single ballot): scores of the result are not the input's scores minus the removed candidates", case,
                     {"got": sorted((str(k), str(v)) for k, v in (r.scores or {}).items()), "exp": sorted((str(k), str(v)) for k, v in si)})
            return
        if (i or si) and r.weight != b.weight:
            ctx.fail("remove_cand(single ballot): a ballot that still lists or scores somebody lost its weight", case,
                     {"got": str(r.weight), "exp": str(b.weight)})
            return
        if not i and not si and r.weight != 0:
            ctx.fail("remove_cand(single ballot): an emptied ballot keeps weight", case, {"got": str(r.weight)})
            return
        ctx.count("single_ballot_contents_checked")


def check_add_missing(ctx, case):
    import votekit.utils as U

    spec = case["profile"]
    prof = canon.build_profile(spec)
    cands = set(spec["cands"])
    before = [psn(prof)]
    o = observe(U.add_missing_cands, prof)
    ctx.count("add_missing_calls")
    ctx.case(case, nontrivial=any(len(cands - {c for g in b.ranking for c in g}) >= 2 for b in prof.ballots))
    if not o.ok:
        ctx.fail(f"add_missing_cands raised {o.etype}", case, {"msg": str(o.exc)[:200]})
        return
    exp = {}
    for b in prof.ballots:
        miss = frozenset(cands - {c for g in b.ranking for c in g})
        r = tuple(b.ranking) + ((miss,) if miss else ())
        exp[r] = exp.get(r, F(0)) + b.weight
    if ms(o.value.ballots) != exp:
        ctx.fail("add_missing_cands: result is not input + last-place tie of the unlisted candidates", case, {})
        return
    if set(o.value.candidates) != cands:
        ctx.fail("add_missing_cands changed the candidate set", case, {})
        return
    repeatable(ctx, case, "add_missing_cands", lambda: U.add_missing_cands(prof), o.value, [prof], before)


def check_expand(ctx, case):
    import votekit.utils as U

    spec = case["profile"]
    cands, plain = canon.plain(spec)
    prof = canon.build_profile(spec)
    before = [psn(prof)]
    from votekit import Ballot
    todo = list(prof.ballots[:3])
    # look-alike ballots expanded right afterwards in the same process: the half-resolved forms of a ballot with several tied
    # positions (one tied group written out in each of its orders, the others still tied) and the same ranking with another
    # weight - each has its own expansion, whatever was expanded before
    for b in prof.ballots[:2]:
        tied_pos = [i for i, g in enumerate(b.ranking) if len(g) > 1]
        if len(tied_pos) >= 2:
            i = tied_pos[0]
            for perm in list(itertools.permutations(sorted(b.ranking[i])))[:3]:
                r2 = b.ranking[:i] + tuple(frozenset([c]) for c in perm) + b.ranking[i + 1:]
                todo.append(Ballot(ranking=r2, weight=b.weight + 1))
                ctx.count("expand_half_resolved_siblings")
        if tied_pos:
            todo.append(Ballot(ranking=b.ranking, weight=b.weight * F(3, 7)))
    for b in todo:
        o = observe(U.expand_tied_ballot, b)
        ctx.count("expand_calls")
        if not o.ok:
            ctx.fail(f"expand_tied_ballot raised {o.etype}", case, {"msg": str(o.exc)[:200]})
            return
        ex = o.value
        n = math.prod(math.factorial(len(s)) for s in b.ranking)
        if len(ex) != n or len({x.ranking for x in ex}) != n:
            ctx.fail("expand_tied_ballot: not every linear order exactly once", case, {"got": len(ex), "exp": n})
            return
        if sum((x.weight for x in ex), F(0)) != b.weight or any(x.weight != b.weight / n for x in ex):
            ctx.fail("expand_tied_ballot: weights are not equal shares adding up to the original", case, {})
            return
        pos = {c: i for i, s in enumerate(b.ranking) for c in s}
        for x in ex:
            flat = [next(iter(s)) for s in x.ranking]
            if any(len(s) != 1 for s in x.ranking) or set(flat) != set(pos) or [pos[c] for c in flat] != sorted(pos[c] for c in flat):
                ctx.fail("expand_tied_ballot: an output is not a linear order consistent with the ballot", case, {})
                return
        if not repeatable(ctx, case, "expand_tied_ballot", lambda b=b: U.expand_tied_ballot(b), ex, [prof], before):
            return
    o = observe(U.resolve_profile_ties, prof)
    ctx.case(case, nontrivial=any(len(g) >= 2 for r, w, _ in plain for g in r))
    if not o.ok:
        ctx.fail(f"resolve_profile_ties raised {o.etype}", case, {"msg": str(o.exc)[:200]})
        return
    res = o.value
    if any(len(g) != 1 for b in res.ballots for g in b.ranking):
        ctx.fail("resolve_profile_ties left a tie", case, {})
        return
    # totals by the *reference* scorer are unchanged (first-place, Borda, pairwise)
    c2, p2 = canon.plain(canon.spec_of_profile(res))
    if scoring.first_place(cands, plain) != scoring.first_place(cands, p2) or scoring.borda(cands, plain) != scoring.borda(cands, p2):
        ctx.fail("resolve_profile_ties changed first-place or Borda totals", case, {})
        return
    if len(cands) <= 6:
        m1, m2 = pairwise.margins(cands, plain), pairwise.margins(cands, p2)
        if m1 != m2:
            ctx.fail("resolve_profile_ties changed pairwise totals", case, {})
            return
    repeatable(ctx, case, "resolve_profile_ties", lambda: U.resolve_profile_ties(prof), res, [prof], before)


def check_noncands_tied(ctx, case):
    """remove_noncands on ballots WITH tied positions: a non-candidate is deleted wherever it stands, also inside a tie; the
    other members of the position stay together; positions left empty disappear (collapsing repeated positions is optional)."""
    import votekit.cleaning as C

    spec, nc = case["profile"], list(case["noncands"])
    prof = canon.build_profile(spec)
    ctx.case(case, nontrivial=any(len(g) > 1 and set(g) & set(nc) and set(g) - set(nc) for b in spec["ballots"] for g in b["r"]))
    before = psn(prof)
    o = observe(C.remove_noncands, prof, nc)
    ctx.count("cleaning_calls")
    ctx.count("noncands_tied_calls")
    if not o.ok:
        ctx.fail(f"remove_noncands raised {o.etype} on ballots with tied positions", case, {"msg": str(o.exc)[:200]})
        return
    if psn(prof) != before or nc != list(case["noncands"]):
        ctx.fail("remove_noncands changed its input", case, {})
        return
    ea, eb = {}, {}
    for b in prof.ballots:
        filt = [frozenset(s) - set(nc) for s in b.ranking]
        filt = [s for s in filt if s]
        seen = []
        for s in filt:
            if s not in seen:
                seen.append(s)
        if filt:
            ea[tuple(filt)] = ea.get(tuple(filt), F(0)) + b.weight
            eb[tuple(seen)] = eb.get(tuple(seen), F(0)) + b.weight
    if any(c in nc for b in o.value.ballots for s in b.ranking for c in s):
        ctx.fail("remove_noncands: a removed name still appears (inside a tied position)", case,
                 {"result": [canon.groups(b.ranking) for b in o.value.ballots][:6]})
        return
    got = ms(o.value.ballots)
    if got != ea and got != eb:
        ctx.fail("remove_noncands on tied ballots: result is not the per-position filtered multiset", case,
                 {"result": [[canon.groups(b.ranking), str(b.weight)] for b in o.value.ballots][:6]})


def check_cleaning(ctx, case):
    import votekit.cleaning as C
    from votekit import Ballot, PreferenceProfile

    cs = case["cands"]
    ubl = [Ballot(ranking=tuple(frozenset([x]) for x in r), weight=canon.pf(w)) for r, w in case["ballots"]]
    up = PreferenceProfile(ballots=tuple(ubl))
    nc = case["noncands"]
    nc0 = list(nc)
    before = [psn(up)]
    firsts = []
    ctx.case(case, nontrivial=any(len(set(r)) < len(r) for r, w in case["ballots"]) and bool(nc))
    # deduplicate
    o = observe(C.deduplicate_profiles, up)
    firsts.append(("deduplicate_profiles", lambda: C.deduplicate_profiles(up), o))
    ctx.count("cleaning_calls")
    e3 = {}
    for b in ubl:
        seen = []
        for s in b.ranking:
            if s not in seen:
                seen.append(s)
        e3[tuple(seen)] = e3.get(tuple(seen), F(0)) + b.weight
    if not o.ok or ms(o.value.ballots) != e3:
        ctx.fail("deduplicate_profiles: result differs from first-occurrence de-duplication with summed weights", case,
                 {"got": repr(o)[:200] if not o.ok else None})
        return
    # remove_noncands: must delete non-candidates; de-duplication of repeats is optional
    o = observe(C.remove_noncands, up, nc)
    firsts.append(("remove_noncands", lambda: C.remove_noncands(up, nc), o))
    ctx.count("cleaning_calls")
    if not o.ok:
        ctx.fail(f"remove_noncands raised {o.etype}", case, {"msg": str(o.exc)[:200]})
        return
    e4a, e4b = {}, {}
    for b in ubl:
        filt = [s for s in b.ranking if next(iter(s)) not in nc]
        seen = []
        for s in filt:
            if s not in seen:
                seen.append(s)
        if filt:
            e4a[tuple(filt)] = e4a.get(tuple(filt), F(0)) + b.weight
            e4b[tuple(seen)] = e4b.get(tuple(seen), F(0)) + b.weight
    got = ms(o.value.ballots)
    if got != e4a and got != e4b:
        ctx.fail("remove_noncands: result is neither the filtered nor the filtered+de-duplicated multiset", case, {})
        return
    if any(next(iter(s)) in nc for b in o.value.ballots for s in b.ranking):
        ctx.fail("remove_noncands: a removed name still appears", case, {})
        return
    # remove_empty_ballots
    mix = PreferenceProfile(ballots=tuple(ubl) + (Ballot(weight=F(2)), Ballot(ranking=(), weight=F(1))), candidates=tuple(cs))
    for keep in (False, True):
        o = observe(C.remove_empty_ballots, mix, keep)
        ctx.count("cleaning_calls")
        if not o.ok or ms(o.value.ballots) != ms(ubl) or any(not b.ranking for b in o.value.ballots):
            ctx.fail("remove_empty_ballots: lost or kept the wrong ballots", case, {"keep": keep})
            return
        if keep and tuple(o.value.candidates) != tuple(cs):
            ctx.fail("remove_empty_ballots(keep_candidates=True) changed the candidates", case, {})
            return
    # clean_profile with the identity and with a truncation rule; merge_ballots
    o = observe(C.clean_profile, up, lambda b: b)
    firsts.append(("clean_profile(identity)", lambda: C.clean_profile(up, lambda b: b), o))
    ctx.count("cleaning_calls")
    if not o.ok or ms(o.value.ballots) != ms(ubl):
        ctx.fail("clean_profile(identity) changed the ranking weights", case, {})
        return
    trunc = lambda b: Ballot(ranking=b.ranking[:1], weight=b.weight)  # noqa
    o = observe(C.clean_profile, up, trunc)
    firsts.append(("clean_profile(truncate)", lambda: C.clean_profile(up, trunc), o))
    e5 = {}
    for b in ubl:
        e5[b.ranking[:1]] = e5.get(b.ranking[:1], F(0)) + b.weight
    if not o.ok or ms(o.value.ballots) != e5:
        ctx.fail("clean_profile(truncate): weights per image differ", case, {})
        return
    same = [b for b in ubl if b.ranking == ubl[0].ranking]
    o = observe(C.merge_ballots, same)
    ctx.count("cleaning_calls")
    if not o.ok or o.value.ranking != ubl[0].ranking or o.value.weight != sum((b.weight for b in same), F(0)):
        ctx.fail("merge_ballots: wrong ranking or weight", case, {})
        return
    firsts.append(("merge_ballots", lambda: C.merge_ballots(same), o))
    if nc != nc0:
        ctx.fail("remove_noncands changed the list of names it was given", case, {})
        return
    for label, fn, o1 in firsts:
        if not repeatable(ctx, case, label, fn, o1.value, [up], before):
            return


def check_realistic(ctx):
    """README pipeline: remove_noncands on the Minneapolis 2013 cast vote record"""
    from votekit.cvr_loaders import load_csv
    from votekit.cleaning import remove_noncands
    from .. import realistic as R

    rows = R.mn_rows()
    case = {"kind": "realistic", "file": "votekit/data/mn_2013_cast_vote_record.csv", "noncands": R.NONCANDS}
    ctx.case(case, nontrivial=True)
    o = observe(lambda: remove_noncands(load_csv(R.mn_path()), R.NONCANDS))
    ctx.count("realistic_rows_cleaned", len(rows))
    if not o.ok:
        ctx.fail(f"remove_noncands raised {o.etype} on the Minneapolis cast vote record", case, {"msg": str(o.exc)[:200]})
        return
    got, exp = R.profile_ms(o.value), R.expected_cleaned(rows)
    if got != exp:
        bad = [k for k in set(got) | set(exp) if got.get(k) != exp.get(k)][:3]
        ctx.fail("remove_noncands on the Minneapolis record: weight per resulting ranking differs from the summed weight of the rows "
                 "mapping to it", case, {"examples": [[str(k), str(got.get(k)), str(exp.get(k))] for k in bad]})


def run(ctx):
    rnd = ctx.rnd
    if ctx.shard == 0:
        ctx.guard("realistic", check_realistic, ctx)
    for i in range(ctx.n(2200, 40000)):
        if ctx.expired():
            break
        spec = gen.ranked(rnd, ties=rnd.random() < 0.7, maxn=5, maxb=7)
        cs = spec["cands"]
        t = rnd.random()
        if t < 0.1:
            rem = []
        elif t < 0.2:
            rem = list(cs)
        elif t < 0.3:
            rem = ["not present"] + rnd.sample(cs, rnd.randint(0, len(cs)))
        else:
            rem = rnd.sample(cs, rnd.randint(1, len(cs)))
        rspec = spec
        if rnd.random() < 0.3:
            # ballots carrying scores as well (partial ranking + wider scores, scores only, ranking only)
            rspec = {"cands": list(cs), "ballots": [dict(b) for b in spec["ballots"]]}
            for b in rspec["ballots"]:
                t2 = rnd.random()
                if t2 < 0.5:
                    b["s"] = {c: canon.fs(F(rnd.choice([1, 2, 3]))) for c in rnd.sample(cs, rnd.randint(1, len(cs)))}
                if t2 < 0.15:
                    b["r"] = None
                elif t2 < 0.3 and b.get("r"):
                    b["r"] = b["r"][:1]
        if rnd.random() < 0.15:
            # ballots that are already blank on input (no ranking, no scores), with any weight: they stay exhausted
            rspec = {"cands": list(rspec["cands"]), "ballots": [dict(b) for b in rspec["ballots"]]}
            for _ in range(rnd.randint(1, 2)):
                rspec["ballots"].insert(rnd.randrange(len(rspec["ballots"]) + 1),
                                        {"r": rnd.choice([None, []]), "w": canon.fs(rnd.choice([F(5, 2), F(0), F(1), F(3)]))})
            ctx.count("blank_input_ballots")
        ctx.guard("remove", check_remove, ctx, {"kind": "remove", "profile": rspec, "remove": rem, "as_str": rnd.random() < 0.3})
        if i % 2 == 0:
            ctx.guard("add_missing", check_add_missing, ctx, {"kind": "add_missing", "profile": spec})
        if i % 2 == 1:
            sp2 = gen.ranked(rnd, ties=True, maxn=5, maxb=4)
            for b in sp2["ballots"]:  # keep the expansion small
                b["r"] = [g[:3] for g in b["r"]]
                if rnd.random() < 0.3:  # weights whose equal shares need denominators far above 10^6
                    b["w"] = canon.fs(rnd.choice([F(1, 1000003), F(5, 7) ** 8, F(2, 3) ** 12, F(3, 99991), F(10 ** 9 + 7, 3)]))
            if len(sp2["cands"]) >= 4 and rnd.random() < 0.4:
                # a ballot with two tied positions goes first (its half-resolved forms are expanded right after it)
                q = rnd.sample(sp2["cands"], 4)
                sp2["ballots"].insert(0, canon.spec_ballot(r=[q[:2], q[2:]], w=gen.weight(rnd, "rat")))
            if rnd.random() < 0.3:
                # three and four tied positions on one ballot (every earlier expansion shifts the later positions)
                pool = (list(sp2["cands"]) + ["t1", "t2", "t3", "t4", "t5", "t6", "t7"])[:max(6, len(sp2["cands"]))]
                q = rnd.sample(pool, rnd.choice([6, 6, 7]) if len(pool) >= 7 else 6)
                groups = [q[0:2], q[2:4], q[4:6]] if len(q) == 6 else rnd.choice([[q[0:2], q[2:3], q[3:5], q[5:7]], [q[0:3], q[3:5], q[5:7]]])
                sp2 = {"cands": list(dict.fromkeys(list(sp2["cands"]) + q)), "ballots": list(sp2["ballots"])}
                sp2["ballots"].insert(rnd.randrange(len(sp2["ballots"]) + 1), canon.spec_ballot(r=groups, w=gen.weight(rnd, "rat")))
                ctx.count("expand_ballots_with_3plus_tied_positions")
            ctx.guard("expand", check_expand, ctx, {"kind": "expand", "profile": sp2})
        cs2 = gen.cands(rnd, rnd.randint(1, 5))
        bl = [([rnd.choice(cs2) for _ in range(rnd.randint(1, 5))], canon.fs(gen.weight(rnd, "mixed"))) for _ in range(rnd.randint(1, 6))]
        if rnd.random() < 0.5 and bl:
            bl.insert(rnd.randrange(len(bl) + 1), (list(bl[0][0]), "2"))
        ctx.guard("cleaning", check_cleaning, ctx, {"kind": "cleaning", "cands": cs2, "ballots": bl,
                                                    "noncands": rnd.sample(cs2 + ["writein"], rnd.randint(0, len(cs2)))})
        if i % 3 == 0:
            tp = gen.ranked(rnd, n=rnd.randint(2, 6), ties=True, maxb=6)
            ctx.guard("noncands_tied", check_noncands_tied, ctx,
                      {"kind": "noncands_tied", "profile": tp,
                       "noncands": rnd.sample(tp["cands"] + ["writein"], rnd.randint(1, max(1, len(tp["cands"]) - 1)))})


def replay(ctx, case):
    if case["kind"] == "realistic":
        return check_realistic(ctx)
    {"remove": check_remove, "add_missing": check_add_missing, "expand": check_expand, "cleaning": check_cleaning,
     "noncands_tied": check_noncands_tied}[case["kind"]](ctx, case)
