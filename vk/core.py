"""Worker-side context (counters, cases, findings) shared by all monitors."""
import io
import contextlib
import json
import os
import random
import time
import traceback

from . import canon

MAX_FAILS = 40
MAX_SAMPLES = 6


class Outcome:
    """value or exception of one call into the code under test"""

    __slots__ = ("value", "exc", "tb", "steplog")

    def __init__(self, value=None, exc=None, tb=None):
        self.value, self.exc, self.tb = value, exc, tb

    @property
    def ok(self):
        return self.exc is None

    @property
    def etype(self):
        return None if self.exc is None else type(self.exc).__name__

    def __repr__(self):
        return f"<ok {self.value!r}>"[:200] if self.ok else f"<{self.etype}: {self.exc}>"[:300]


class HarnessAbort(BaseException):
    """raised by budget monitors; BaseException so that `except Exception` in the
    code under test cannot swallow it"""


def observe(fn, *a, **kw):
    """Call into VoteKit; the result or the exception is an *outcome* for the oracle."""
    buf = io.StringIO()
    try:
        with contextlib.redirect_stdout(buf):
            v = fn(*a, **kw)
        return Outcome(value=v)
    except HarnessAbort:
        raise
    except Exception as e:  # noqa
        return Outcome(exc=e, tb=traceback.format_exc(limit=8))


class Ctx:
    def __init__(self, pid, tier, seed, shard=0, nshards=1, deadline_s=None, hashseed=None):
        self.pid, self.tier, self.seed, self.shard, self.nshards = pid, tier, seed, shard, nshards
        self.hashseed = hashseed
        self.rnd = random.Random(f"{pid}/{seed}/{shard}/{nshards}")
        self.t0 = time.time()
        self.deadline = None if deadline_s is None else self.t0 + deadline_s
        self.evaluations = 0
        self.hashes = set()
        self.nontrivial = set()
        self.counters = {}
        self.samples = []
        self.fails = []
        self.fail_counts = {}
        self.harness_errors = []
        self.extra = {}
        self.quick = tier == "quick"

    # ---- budgets
    def n(self, quick, thorough):
        """per-shard share of a total case budget"""
        tot = quick if self.quick else thorough
        return max(1, -(-tot // self.nshards))

    def expired(self, share=1.0):
        """soft deadline reached?  A phase of a multi-phase workload passes the share of the time it may use up at most
        (so that an early phase cannot starve the later ones on a loaded machine)."""
        if self.deadline is not None and time.time() > self.t0 + (self.deadline - self.t0) * share:
            self.counters["soft_deadline_hit"] = 1
            return True
        return False

    def sub_rnd(self, *key):
        return random.Random(f"{self.pid}/{self.seed}/{self.shard}/{key}")

    # ---- bookkeeping
    def count(self, name, k=1):
        self.counters[name] = self.counters.get(name, 0) + k

    def case(self, case, nontrivial=False, sample=True):
        """register one explored case (JSON-able); returns its hash"""
        self.evaluations += 1
        h = canon.jhash(case)
        new = h not in self.hashes
        self.hashes.add(h)
        if nontrivial:
            if h not in self.nontrivial and sample and len(self.samples) < MAX_SAMPLES:
                self.samples.append(canon.jsonable(case))
            self.nontrivial.add(h)
        return h

    def sample(self, obj):
        if len(self.samples) < MAX_SAMPLES:
            self.samples.append(canon.jsonable(obj))

    def fail(self, what, case, detail=None, mech=None):
        """A monitor fired.  `mech` is the mechanism key produced by the monitor's
        classifier (predicate over input + reference model + symptom) or None.
        Whether it is a KNOWN-FINDING or a VIOLATION is decided by the driver against
        known_findings.json."""
        key = mech or "-"
        self.fail_counts[key] = self.fail_counts.get(key, 0) + 1
        # keep a few examples per (mechanism, kind of failure) so one noisy failure cannot crowd out others
        k2 = (key, what[:70])
        self._per = getattr(self, "_per", {})
        self._per[k2] = self._per.get(k2, 0) + 1
        if self._per[k2] <= (3 if mech else 6) and len(self.fails) < 400:
            self.fails.append({"mech": mech, "what": what, "case": canon.jsonable(case),
                               "detail": canon.jsonable(detail)})

    def harness_error(self, where, exc=None):
        if len(self.harness_errors) < 10:
            self.harness_errors.append({"where": where, "tb": traceback.format_exc() if exc is None else "".join(
                traceback.format_exception(type(exc), exc, exc.__traceback__))})
        self.count("harness_errors")

    def guard(self, where, fn, *a, **kw):
        """run harness code; an exception here is a harness error, never a verdict"""
        try:
            return fn(*a, **kw)
        except HarnessAbort:
            raise
        except Exception:  # noqa
            self.harness_error(where)
            return None

    def result(self):
        return {
            "pid": self.pid, "shard": self.shard, "hashseed": self.hashseed,
            "evaluations": self.evaluations,
            "hashes": sorted(self.hashes), "nontrivial": sorted(self.nontrivial),
            "counters": self.counters, "samples": self.samples, "fails": self.fails,
            "fail_counts": self.fail_counts, "harness_errors": self.harness_errors,
            "extra": canon.jsonable(self.extra), "wall": time.time() - self.t0,
        }


def load_known():
    p = os.path.join(os.path.dirname(os.path.dirname(os.path.abspath(__file__))), "known_findings.json")
    with open(p) as f:
        return json.load(f)
