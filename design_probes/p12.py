import sys, random, itertools, io, contextlib, collections, json, os
sys.path[:0] = ['/repo/src', __import__('os').path.join(__import__('os').path.dirname(__import__('os').path.abspath(__file__)) if '__file__' in globals() else '.', 'shim')]
from fractions import Fraction as F
from votekit import Ballot, PreferenceProfile
from votekit.elections import *
import numpy as np
seed=int(sys.argv[1]) if len(sys.argv)>1 else 0
rnd=random.Random(seed)
NAMES=['b','A','é x','a10','a9','Zed','"q"','c,d']
def rprof(n, nb, tie_bias=False):
    cands = rnd.sample(NAMES, n)
    bl=[]
    for _ in range(nb):
        k = rnd.randint(1,n)
        r = rnd.sample(cands,k)
        w = rnd.choice([F(1),F(2),F(3)]) if tie_bias else rnd.choice([F(1),F(2),F(3),F(5),F(1,2),F(7,3)])
        bl.append((tuple(r), w))
    return cands, bl
def mk(cands, bl):
    return PreferenceProfile(ballots=tuple(Ballot(ranking=tuple(frozenset([c]) for c in r),weight=w) for r,w in bl), candidates=tuple(cands))
def canon_state(s):
    f=lambda t: [sorted(x) for x in t if len(x)]
    return dict(el=f(s.elected), elim=f(s.eliminated), rem=f(s.remaining), sc=sorted((c,str(v)) for c,v in s.scores.items()), tb=sorted((sorted(k), [sorted(x) for x in v]) for k,v in s.tiebreaks.items()), rn=s.round_number)
def canon(e): return [canon_state(s) for s in e.election_states]
# RNG tap
class Tap:
    def __init__(s): s.draws=0
    def __enter__(s):
        s.orig={}
        for mod,names in ((random,['sample','choices','random','uniform','shuffle','choice']),(np.random,['choice','uniform','shuffle','random','normal'])):
            for nm in names:
                o=getattr(mod,nm); s.orig[(mod,nm)]=o
                def w(*a,__o=o,**k):
                    s.draws+=1; return __o(*a,**k)
                setattr(mod,nm,w)
        return s
    def __exit__(s,*a):
        for (mod,nm),o in s.orig.items(): setattr(mod,nm,o)
rules = {
 'STV': lambda p,m,tb: STV(p,m=m,tiebreak=tb),
 'STV1': lambda p,m,tb: STV(p,m=m,tiebreak=tb,simultaneous=False),
 'SeqRCV': lambda p,m,tb: SequentialRCV(p,m=m,tiebreak=tb),
 'IRV': lambda p,m,tb: IRV(p,tiebreak=tb),
 'Plurality': lambda p,m,tb: Plurality(p,m=m,tiebreak=tb),
 'Borda': lambda p,m,tb: Borda(p,m=m,tiebreak=tb),
 'TopTwo': lambda p,m,tb: TopTwo(p,tiebreak=tb),
 'Alaska': lambda p,m,tb: Alaska(p,m_1=min(len(p.candidates),m+1),m_2=m,tiebreak=tb),
 'Dom': lambda p,m,tb: DominatingSets(p),
 'Condo': lambda p,m,tb: CondoBorda(p,m=m),
}
out={}
cnt=collections.Counter()
for it in range(int(sys.argv[2]) if len(sys.argv)>2 else 150):
    n=rnd.randint(2,5); cands,bl=rprof(n, rnd.randint(1,6), tie_bias=True)
    m=rnd.randint(1,n-1)
    for tb in (None,'borda','first_place'):
      for name,f in rules.items():
        p=mk(cands,bl)
        try:
            with contextlib.redirect_stdout(io.StringIO()), Tap() as t:
                e=f(p,m,tb)
            res=canon(e) if t.draws==0 else 'RANDOM'
            # purity / replay
            if t.draws==0:
                before=canon(e)
                for r in range(len(e.election_states)):
                    try:
                        with contextlib.redirect_stdout(io.StringIO()), Tap() as t2:
                            pr=e.get_profile(r)
                        rem={c for g in e.get_remaining(r) for c in g}
                        if set(pr.candidates)!=rem: cnt[('C09 profile cands',name)]+=1; 
                        if e.score_function and t2.draws==0:
                            sc=e.score_function(pr)
                            if dict(sc)!=dict(e.election_states[r].scores): cnt[('C09 rescoring',name)]+=1
                    except BaseException as ex:
                        cnt[('C09 exc',name,type(ex).__name__)]+=1
                if canon(e)!=before: cnt[('C09 impure',name)]+=1
        except ValueError as ex:
            res='ValueError' if t.draws==0 else 'RANDOM'
        except BaseException as ex:
            res=('EXC '+type(ex).__name__) if t.draws==0 else 'RANDOM'; cnt[(name,'EXC '+type(ex).__name__, 'draws>0' if t.draws else 'det')]+=1
        out[f'{it}|{tb}|{name}']=res
json.dump(out, open(f'out_{os.environ.get("PYTHONHASHSEED","x")}.json','w'), sort_keys=True)
print(cnt)
print(collections.Counter(v if isinstance(v,str) else 'det' for v in out.values()))
