import sys, time, random, io, contextlib
sys.path[:0] = ['/repo/src', __import__('os').path.join(__import__('os').path.dirname(__import__('os').path.abspath(__file__)) if '__file__' in globals() else '.', 'shim')]
from fractions import Fraction as F
from votekit import Ballot, PreferenceProfile
from votekit.elections import *
mon=sys.monitoring; TID=mon.PROFILER_ID
cnt=[0]
def cb(code,off): cnt[0]+=1
mon.use_tool_id(TID,'vk'); mon.register_callback(TID,mon.events.PY_START,cb)
rnd=random.Random(1)
def rprof(n, nb):
    cands=[chr(65+i) for i in range(n)]
    return PreferenceProfile(ballots=tuple(Ballot(ranking=tuple(frozenset([c]) for c in rnd.sample(cands,rnd.randint(1,n))),weight=F(rnd.randint(1,5))) for _ in range(nb)),candidates=tuple(cands))
mx={}
for n,nb in [(4,8),(6,12),(8,30)]:
    for name,f in [('STV',lambda p:STV(p,m=2,tiebreak='random')),('Alaska',lambda p:Alaska(p,m_1=3,m_2=2,tiebreak='random')),('PV',lambda p:PluralityVeto(p,m=2,tiebreak='random')),('Condo',lambda p:CondoBorda(p,m=2)),('Borda',lambda p:Borda(p,m=2,tiebreak='random'))]:
        worst=0
        for _ in range(15):
            p=rprof(n,nb); cnt[0]=0
            mon.set_events(TID,mon.events.PY_START)
            try:
                with contextlib.redirect_stdout(io.StringIO()): f(p)
            except BaseException: pass
            mon.set_events(TID,0)
            worst=max(worst,cnt[0])
        print(n,nb,name,worst)
