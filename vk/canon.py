"""Canonical JSON-able forms of ballots, profiles, states and outcomes, and the
plain-data 'spec' form of profiles that cases/replays are stored in."""
import hashlib
import json
from fractions import Fraction


def fs(x):
    """number -> canonical string"""
    if isinstance(x, Fraction):
        return str(x.numerator) if x.denominator == 1 else f"{x.numerator}/{x.denominator}"
    if isinstance(x, bool):
        return str(x)
    if isinstance(x, int):
        return str(x)
    if isinstance(x, float):
        return "f" + repr(x)
    try:
        import numpy as np

        if isinstance(x, np.integer):
            return str(int(x))
        if isinstance(x, np.floating):
            return "f" + repr(float(x))
    except Exception:
        pass
    return repr(x)


def pf(s):
    """canonical string -> number"""
    if isinstance(s, (int, Fraction)):
        return Fraction(s)
    if isinstance(s, float):
        return s
    if s.startswith("f"):
        return float(s[1:])
    return Fraction(s)


def cstr(c):
    return "<None>" if c is None else str(c)


def _rn(c, ren):
    return cstr(c) if ren is None else cstr(ren.get(c, c))


def groups(t, ren=None):
    """tuple of frozensets -> list of sorted lists; empty groups dropped"""
    if t is None:
        return None
    return [sorted(_rn(c, ren) for c in g) for g in t if len(g) > 0]


def flat(t):
    return [c for g in t for c in g]


def scores_c(d, ren=None):
    if d is None:
        return None
    return sorted([_rn(c, ren), fs(v)] for c, v in d.items())


def tiebreaks_c(tb, ren=None):
    return sorted([[sorted(_rn(c, ren) for c in k), groups(v, ren)] for k, v in tb.items()])


def state_c(s, ren=None):
    return {
        "round": s.round_number,
        "elected": groups(s.elected, ren),
        "eliminated": groups(s.eliminated, ren),
        "remaining": groups(s.remaining, ren),
        "scores": scores_c(s.scores, ren),
        "tiebreaks": tiebreaks_c(s.tiebreaks, ren),
    }


def outcome_c(e, ren=None):
    return [state_c(s, ren) for s in e.election_states]


def ballot_content(b):
    r = tuple(b.ranking) if b.ranking else ()
    s = frozenset(b.scores.items()) if b.scores else frozenset()
    return (r, s)


def multiset(ballots):
    """content multiset {(ranking, scores) -> total weight} of an iterable of Ballots"""
    m = {}
    for b in ballots:
        k = ballot_content(b)
        m[k] = m.get(k, Fraction(0)) + b.weight
    return m


def multiset_c(ms, drop_zero=True):
    out = []
    for (r, s), w in ms.items():
        if drop_zero and w == 0:
            continue
        out.append([groups(r), sorted([cstr(c), fs(v)] for c, v in s), fs(w)])
    out.sort(key=lambda x: json.dumps(x, sort_keys=True))
    return out


def profile_c(p):
    return {"cands": sorted(cstr(c) for c in p.candidates), "ballots": multiset_c(multiset(p.ballots))}


def ranking_multiset(ballots):
    m = {}
    for b in ballots:
        r = tuple(b.ranking) if b.ranking else ()
        m[r] = m.get(r, Fraction(0)) + b.weight
    return m


# ---------------------------------------------------------------- spec form


def spec_ballot(r=None, w=1, s=None, id=None, vs=None):
    d = {"r": None if r is None else [list(g) if isinstance(g, (list, tuple, set, frozenset)) else [g] for g in r],
         "w": fs(Fraction(w)) if not isinstance(w, float) else fs(w)}
    if s is not None:
        d["s"] = {c: fs(v) for c, v in s.items()}
    if id is not None:
        d["id"] = id
    if vs is not None:
        d["vs"] = sorted(vs)
    return d


def spec_profile(cands, ballots):
    return {"cands": list(cands), "ballots": list(ballots)}


def build_ballot(d):
    from votekit import Ballot

    kw = {}
    if d.get("r") is not None:
        kw["ranking"] = tuple(frozenset(g) for g in d["r"])
    kw["weight"] = pf(d["w"])
    if d.get("s") is not None:
        kw["scores"] = {c: pf(v) for c, v in d["s"].items()}
    if d.get("id") is not None:
        kw["id"] = d["id"]
    if d.get("vs") is not None:
        kw["voter_set"] = set(d["vs"])
    return Ballot(**kw)


def build_profile(spec):
    from votekit import PreferenceProfile

    kw = {"ballots": tuple(build_ballot(b) for b in spec["ballots"])}
    if spec.get("cands") is not None:
        kw["candidates"] = tuple(spec["cands"])
    return PreferenceProfile(**kw)


def spec_of_profile(p):
    bl = []
    for b in p.ballots:
        bl.append(spec_ballot(
            r=None if not b.ranking else [sorted(g) for g in b.ranking],
            w=b.weight, s=dict(b.scores) if b.scores else None))
    return spec_profile(list(p.candidates), bl)


def plain(spec):
    """spec -> (cands, [(ranking tuple of tuples, Fraction weight, scores dict|None)])"""
    out = []
    for b in spec["ballots"]:
        r = None if b.get("r") is None else tuple(tuple(g) for g in b["r"])
        s = None if b.get("s") is None else {c: pf(v) for c, v in b["s"].items()}
        out.append((r, pf(b["w"]), s))
    return list(spec["cands"]), out


def jhash(obj):
    return hashlib.sha1(json.dumps(obj, sort_keys=True, default=str).encode()).hexdigest()[:16]


def jsonable(x):
    """best-effort conversion of arbitrary monitor detail to JSON"""
    if isinstance(x, (str, int, bool)) or x is None:
        return x
    if isinstance(x, float):
        return x if x == x and abs(x) != float("inf") else repr(x)
    if isinstance(x, Fraction):
        return fs(x)
    if isinstance(x, dict):
        return {json.dumps(jsonable(k)) if not isinstance(k, str) else k: jsonable(v) for k, v in x.items()}
    if isinstance(x, (set, frozenset)):
        return sorted((jsonable(v) for v in x), key=lambda v: json.dumps(v, sort_keys=True, default=str))
    if isinstance(x, (list, tuple)):
        return [jsonable(v) for v in x]
    try:
        import numpy as np

        if isinstance(x, np.ndarray):
            return jsonable(x.tolist())
        if isinstance(x, np.generic):
            return jsonable(x.item())
    except Exception:
        pass
    return repr(x)[:300]
