"""Seeded workload generators.  Everything returns plain 'spec' data (vk.canon)."""
from fractions import Fraction as F
import itertools

from .canon import spec_ballot, spec_profile, fs as canon_fs

NAMES = ["b", "A", "é x", "a10", "a9", "Zed", '"q"', "c,d", "10", "2", " z", "Ω", "a'b", "B", "AB", "1", "12"]
PLAIN = ["A", "B", "C", "D", "E", "F", "G", "H"]

W_INT = [1, 1, 1, 2, 2, 3, 4, 5, 7]
W_BIG = [1, 10, 99, 100, 101, 1000, 12345]
W_RAT = [F(1), F(2), F(3), F(1, 2), F(1, 3), F(7, 3), F(10, 7), F(5, 2), F(3, 4), F(1, 997), F(3, 1009), F(5, 7919)]

HOSTILE = ["bullet", "same", "zero", "tie_top", "tie_bottom", "tie_boundary", "quota", "overquota",
           "exhaust", "single", "full", "cycle", "coalition", "dup"]


def cands(rnd, n, plain=False):
    if plain or rnd.random() < 0.25:
        return PLAIN[:n]
    return rnd.sample(NAMES, n)


def weight(rnd, kind):
    if kind == "int":
        return F(rnd.choice(W_INT))
    if kind == "big":
        return F(rnd.choice(W_BIG))
    if kind == "rat":
        return rnd.choice(W_RAT)
    return rnd.choice([F(rnd.choice(W_INT)), F(rnd.choice(W_INT)), rnd.choice(W_RAT), F(rnd.choice(W_BIG))])


def ranking(rnd, cs, ties=False, full=False, maxtie=3):
    k = len(cs) if full else rnd.randint(1, len(cs))
    r = rnd.sample(cs, k)
    if not ties:
        return [[c] for c in r]
    out = []
    while r:
        j = 1 if rnd.random() < 0.55 else rnd.randint(1, min(maxtie, len(r)))
        out.append(r[:j])
        r = r[j:]
    return out


def ranked(rnd, n=None, nb=None, ties=False, wkind=None, cs=None, full=False, maxn=6, maxb=10):
    if cs is None:
        n = n or rnd.randint(1, maxn)
        cs = cands(rnd, n)
    nb = nb if nb is not None else rnd.randint(1, maxb)
    wkind = wkind or rnd.choice(["int", "int", "rat", "mixed", "big"])
    bl = [spec_ballot(r=ranking(rnd, cs, ties, full), w=weight(rnd, wkind)) for _ in range(nb)]
    return spec_profile(cs, bl)


def rot(cs, i):
    return cs[i:] + cs[:i]


def hostile(rnd, tag, n=None, m=None, integer=False, big=1):
    """One profile of hostile class `tag` (untied rankings). Returns (spec, m_hint).  big > 1 multiplies the electorate of
    the 'quota' and 'coalition' classes (exact-quota structure at ~10^9..10^18 voters)."""
    if big > 1:
        _slice("slice_big_electorate_profiles")
    n = n or rnd.randint(2, 6)
    cs = cands(rnd, n)
    wk = "int" if integer else rnd.choice(["int", "rat"])
    m = m or rnd.randint(1, n)
    B = lambda r, w=1: spec_ballot(r=[[c] for c in r], w=w)  # noqa
    if tag == "bullet":
        bl = [B([rnd.choice(cs)], weight(rnd, wk)) for _ in range(rnd.randint(1, 8))]
    elif tag == "same":
        r = rnd.sample(cs, rnd.randint(1, n))
        bl = [B(r, weight(rnd, wk)) for _ in range(rnd.choice([1, 1, 2, 3]))]
    elif tag == "zero":
        k = rnd.randint(1, max(1, n - 1))
        used = cs[:k]
        bl = [B(rnd.sample(used, rnd.randint(1, k)), weight(rnd, wk)) for _ in range(rnd.randint(1, 6))]
        if k < n and rnd.random() < 0.5:  # candidate mentioned only below first place
            bl.append(B([used[0], cs[k]], weight(rnd, wk)))
    elif tag in ("tie_top", "tie_bottom", "tie_boundary"):
        w = weight(rnd, wk)
        bl = [B(rot(cs, i)[: rnd.randint(1, n)] if rnd.random() < 0.3 else rot(cs, i), w) for i in range(n)]
        if tag == "tie_top" and n > 2:
            # two leaders tied, rest below
            bl = [B(rot(cs, 0), 3 * w), B(rot(cs, 1), 3 * w)] + [B(rot(cs, i), w) for i in range(2, n)]
        elif tag == "tie_bottom" and n > 2:
            bl = [B(rot(cs, 0), 5 * w)] + [B(rot(cs, i), w) for i in range(1, n)]
        elif tag == "tie_boundary" and n > 2:
            k = min(m, n - 1)
            # k-1 clear leaders, then a tie group straddling seat k
            bl = [B(rot(cs, i), (10 - i) * w) for i in range(k - 1)] + [B(rot(cs, i), w) for i in range(k - 1, n)]
    elif tag == "quota":
        # integer profile where some tally equals the droop quota exactly / one below
        tot = rnd.randint(4, 30) * big + (rnd.randint(0, m) if big > 1 else 0)
        T = tot // (m + 1) + 1
        first = T if rnd.random() < 0.5 else max(1, T - 1)
        rest = max(0, tot - first)
        bl = [B([cs[0]] + rnd.sample(cs[1:], rnd.randint(0, n - 1)), first)]
        while rest > 0:
            w = rnd.randint(1, rest)
            bl.append(B(rnd.sample(cs[1:] or cs, rnd.randint(1, max(1, n - 1))), w))
            rest -= w
    elif tag == "overquota":
        # equal first-place votes for everybody: under Hare with m<n several reach quota at once
        w = weight(rnd, "int")
        bl = [B(rot(cs, i)[: rnd.randint(1, n)], w) for i in range(n)]
    elif tag == "exhaust":
        # short ballots so that weight exhausts before seats are filled
        bl = [B(rnd.sample(cs, rnd.randint(1, 2)), weight(rnd, wk)) for _ in range(rnd.randint(2, 6))]
        bl.append(B([cs[0]], 20 * weight(rnd, wk)))
    elif tag == "single":
        cs = cs[:1]
        bl = [B(cs, weight(rnd, wk)) for _ in range(rnd.randint(1, 3))]
        m = 1
    elif tag == "full":
        m = n
        bl = [B(rnd.sample(cs, rnd.randint(1, n)), weight(rnd, wk)) for _ in range(rnd.randint(1, 8))]
    elif tag == "cycle":
        k = rnd.randint(3, n) if n >= 3 else n
        cyc = cs[:k]
        w = weight(rnd, wk)
        bl = [B(rot(cyc, i) + (rnd.sample(cs[k:], rnd.randint(0, n - k)) if n > k else []), w) for i in range(k)]
        if n > k and rnd.random() < 0.5:  # nested lower cycle
            low = cs[k:]
            bl += [B(cyc[:1] + rot(low, i), 1) for i in range(len(low))]
        if rnd.random() < 0.4:
            bl.append(B(rnd.sample(cs, n), weight(rnd, wk)))
    elif tag == "coalition":
        k = rnd.randint(1, max(1, n - 1))
        S = cs[:k]
        others = cs[k:]
        tot = rnd.randint(6, 40) * big + (rnd.randint(0, m) if big > 1 else 0)
        T = tot // (m + 1) + 1
        q = rnd.randint(1, max(1, min(m, tot // T)))
        ws = q * T - (0 if rnd.random() < 0.6 else 1)
        ws = min(max(ws, 1), tot)
        bl = []
        if others and tot - ws >= T - 1 >= 1 and rnd.random() < 0.4:
            # an outsider just below the quota (one vote short): must not be seated ahead of the coalition
            o = rnd.choice(others)
            bl.append(B([o] + rnd.sample([c for c in cs if c != o], rnd.randint(0, n - 1)), T - 1))
            tot -= T - 1
        left = ws
        while left > 0:
            w = rnd.randint(1, left)
            bl.append(B(rnd.sample(S, k) + rnd.sample(others, rnd.randint(0, len(others))), w))
            left -= w
        left = tot - ws
        while left > 0 and others:
            w = rnd.randint(1, left)
            bl.append(B(rnd.sample(others, rnd.randint(1, len(others))) + (rnd.sample(S, rnd.randint(0, k))), w))
            left -= w
    elif tag == "dup":
        base = [rnd.sample(cs, rnd.randint(1, n)) for _ in range(rnd.randint(1, 3))]
        bl = []
        for _ in range(rnd.randint(3, 9)):
            bl.append(B(rnd.choice(base), weight(rnd, wk)))
    else:
        raise KeyError(tag)
    rnd.shuffle(bl)
    return spec_profile(cs, bl), min(m, len(cs))


BIGNAMES = NAMES + ["k%d" % i for i in range(1, 13)]
W_HUGE = [F(10 ** 9), F(2 ** 53 + 1), F(10 ** 15 + 7), F(10 ** 18), F(10 ** 9 + 7), F(2 ** 53 - 1)]
W_TINY = [F(1, 10 ** 9), F(1, 10 ** 12 + 39), F(3, 2 ** 60), F(7, 10 ** 9 + 7)]
SCALE_P = 0.04  # share of beyond-hand-size profiles in the mixed generators
SLICES = {}  # how many profiles of each shared slice this process generated (merged into the monitor counters by vk.worker)


def _slice(name):
    SLICES[name] = SLICES.get(name, 0) + 1


def scale(rnd, integer=False, mode=None, maxmiss=None):
    """Beyond-hand-size untied profile: 8..12 candidates (double-digit round numbers under single-winner counts), 30..80
    ballots drawn around a few base orders so that transfers are long, weights plain / huge (>= 10^9, beyond 2^53) / tiny
    (<= 10^-9).  Returns (spec, m)."""
    _slice("slice_scale_profiles")
    n = rnd.randint(8, 12)
    cs = rnd.sample(BIGNAMES, n)
    nb = rnd.randint(30, 80)
    mode = mode or rnd.choice(["plain", "plain", "huge", "tiny", "mixed"])
    if integer and mode in ("tiny", "mixed"):
        mode = "huge"
    bases = [rnd.sample(cs, n) for _ in range(rnd.randint(2, 4))]

    def w():
        if mode == "plain":
            return weight(rnd, "int" if integer else "mixed")
        if mode == "huge":
            return rnd.choice(W_HUGE) + (rnd.randint(0, 3) if rnd.random() < 0.5 else 0)
        if mode == "tiny":
            return rnd.choice(W_TINY) * rnd.randint(1, 5)
        return rnd.choice(W_HUGE + W_TINY + [F(1), F(2), F(1, 3)])
    bl = []
    for _ in range(nb):
        r = list(rnd.choice(bases))
        for _ in range(rnd.randint(0, 3)):  # a few adjacent swaps
            i = rnd.randrange(n - 1)
            r[i], r[i + 1] = r[i + 1], r[i]
        k = n if rnd.random() < 0.5 else rnd.randint(1, n)
        if maxmiss is not None:
            k = max(k, n - maxmiss)
        bl.append(spec_ballot(r=[[c] for c in r[:k]], w=w()))
    return spec_profile(cs, bl), rnd.choice([1, 1, 2, 3, 5, n - 1, n])


MAGNIFY_P = 0.08
BIG_W = [10 ** 9, 2 ** 53, 10 ** 15 + 1, 10 ** 17, 10 ** 18, 3 * 10 ** 9 + 7]
GAP = F(1, 10 ** 20)


def magnify(rnd, spec, mode=None):
    """The same hand-sized profile at a magnitude where doubles no longer tell neighbours apart.  Exact ties of the small
    profile either stay exact ('scale'), become differences of one unit in ~10^9..10^18 ('+1'), or stay ties at first-place
    level while every lower-order score differs by one unit ('shift': one unit moved between two ballots with the same
    first choice); 'gap' / 'gapshift' do the same with a difference of 10^-20 at unit magnitude.  Works on weights only, so
    it applies to ranked and scored ballots alike."""
    from .canon import pf, fs
    mode = mode or rnd.choice(["scale", "+1", "+1", "shift", "shift", "gap", "gapshift"])
    _slice("slice_magnified_profiles")
    bl = [dict(b) for b in spec["ballots"]]
    if not bl:
        return spec
    W = rnd.choice(BIG_W) if mode in ("scale", "+1", "shift") else 1
    ws = [pf(b["w"]) * W for b in bl]
    unit = F(1) if W > 1 else GAP

    def first(b):
        return tuple(b["r"][0]) if b.get("r") else tuple(sorted((b.get("s") or {}).items()))[:1]
    if mode in ("+1", "gap"):
        for _ in range(rnd.randint(1, 2)):
            ws[rnd.randrange(len(ws))] += unit
    elif mode in ("shift", "gapshift"):
        groups = {}
        for i, b in enumerate(bl):
            groups.setdefault(first(b), []).append(i)
        pairs = [g for g in groups.values() if len(g) >= 2]
        if pairs:
            g = rnd.choice(pairs)
            i, j = rnd.sample(g, 2)
            if ws[j] > unit:
                ws[i] += unit
                ws[j] -= unit
        else:
            ws[rnd.randrange(len(ws))] += unit
    for b, w in zip(bl, ws):
        b["w"] = fs(w)
    return {"cands": list(spec["cands"]), "ballots": bl}


def rescaled(spec, factor):
    """every weight multiplied by the same exact factor (shares, ties and every scale-free answer are unchanged)"""
    from .canon import pf, fs
    _slice("slice_rescaled_profiles")
    return {"cands": list(spec["cands"]), "ballots": [dict(b, w=fs(pf(b["w"]) * factor)) for b in spec["ballots"]]}


FACTORS = [F(1, 10 ** 12), F(1, 10 ** 9), F(3, 10 ** 10), F(10 ** 9), F(2 ** 53), F(10 ** 15)]


def any_ranked(rnd, integer=False, maxn=6, scale_ok=True):
    """Mixture of uniform and hostile untied profiles; returns (spec, m, tag)."""
    if scale_ok and maxn >= 6 and rnd.random() < SCALE_P:
        p, m = scale(rnd, integer=integer)
        return p, m, "scale"
    if scale_ok and not integer and rnd.random() < MAGNIFY_P:
        p, m, tag = any_ranked(rnd, integer=False, maxn=maxn, scale_ok=False)
        return magnify(rnd, p), m, "magnified-" + tag
    if rnd.random() < 0.45:
        p = ranked(rnd, wkind="int" if integer else None, maxn=maxn)
        return p, rnd.randint(1, len(p["cands"])), "uniform"
    tag = rnd.choice(HOSTILE)
    big = rnd.choice(BIG_W) if (scale_ok and not integer and tag in ("quota", "coalition") and rnd.random() < 0.2) else 1
    p, m = hostile(rnd, tag, n=rnd.randint(2, maxn), integer=integer, big=big)
    return p, m, tag


# ---------------------------------------------------------------- score profiles

SCORES = [0, 1, 1, 1, 2, 3, F(1, 2), F(1, 3), F(5, 2), 0.5, 0.25]


def score_profile(rnd, n=None, nb=None, L=None, k=None, approval=False, cs=None):
    n = n or rnd.randint(1, 6)
    cs = cs or cands(rnd, n)
    nb = nb or rnd.randint(1, 7)
    bl = []
    for _ in range(nb):
        sc = {}
        for c in cs:
            if rnd.random() < 0.55:
                v = 1 if approval else rnd.choice(SCORES)
                if L is not None:
                    v = min(F(v), F(L))
                if v:
                    sc[c] = v
        if k is not None:
            # scale down greedy so that sum <= k
            tot = F(0)
            for c in list(sc):
                if tot + F(sc[c]) > F(k):
                    del sc[c]
                else:
                    tot += F(sc[c])
        if not sc:
            v = 1 if L is None else min(F(1), F(L))
            if k is not None:
                v = min(v, F(k))
            sc[rnd.choice(cs)] = v
        bl.append(spec_ballot(r=None, w=weight(rnd, rnd.choice(["int", "rat"])), s=sc))
    return spec_profile(cs, bl)


DRESS_P = 0.12


def dress(rnd, spec, scores=True):
    """The same votes in an unusual but valid shape: zero-weight ballots added (any ranking over the candidates, also a copy of
    a real ballot), ids and voter sets attached, scores attached to ranked ballots (ranking rules ignore them).  None of this
    changes any tally, so every reference model gives the same answers; the counters show how often it was produced."""
    cs = list(spec["cands"])
    bl = [dict(b) for b in spec["ballots"]]
    what = rnd.sample(["zero", "ids", "scores"], rnd.randint(1, 3))
    if "zero" in what and cs:
        for _ in range(rnd.randint(1, 3)):
            if bl and rnd.random() < 0.4:
                z = dict(rnd.choice(bl))
            else:
                z = spec_ballot(r=[[c] for c in rnd.sample(cs, rnd.randint(1, len(cs)))], w=0)
            z["w"] = "0"
            bl.insert(rnd.randrange(len(bl) + 1), z)
    if "ids" in what:
        for i, b in enumerate(bl):
            if rnd.random() < 0.7:
                b["id"] = "voter-%d" % i
            if rnd.random() < 0.5:
                b["vs"] = sorted({"v%d" % i, "w%d" % rnd.randint(0, 3)})
    if "scores" in what and scores and cs:
        for b in bl:
            if b.get("r") and b.get("s") is None and rnd.random() < 0.6:
                # scores mostly for candidates the ballot ranks; one time in four for any candidate (a ballot that outlives its
                # ranking through its scores is the known finding mixed-ballot-ranking-exhausted)
                ranked = [c for g in b["r"] for c in g]
                pool = cs if rnd.random() < 0.25 else ranked
                b["s"] = {c: canon_fs(rnd.choice([1, 2, 5])) for c in rnd.sample(pool, rnd.randint(1, len(pool)))}
    return {"cands": cs, "ballots": bl}
