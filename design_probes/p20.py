import sys, random, itertools, math, collections
sys.path[:0] = ['/repo/src', __import__('os').path.join(__import__('os').path.dirname(__import__('os').path.abspath(__file__)) if '__file__' in globals() else '.', 'shim')]
from fractions import Fraction as F
from votekit import Ballot, PreferenceProfile
from votekit.metrics import lp_dist
from votekit.graphs import BallotGraph
from votekit.elections import fractional_transfer, random_transfer
rnd=random.Random(3)
def rp(cands, nb):
    bl=[]
    for _ in range(nb):
        r=rnd.sample(cands, rnd.randint(1,len(cands)))
        bl.append(Ballot(ranking=tuple(frozenset([c]) for c in r), weight=rnd.choice([F(1),F(2),F(1,3),F(5,2)])))
    return PreferenceProfile(ballots=tuple(bl), candidates=tuple(cands))
def dist(p):
    d=collections.defaultdict(F)
    for b in p.ballots: d[b.ranking]+=b.weight/p.total_ballot_wt
    return d
bad=0
for it in range(300):
    c=list('ABCD')[:rnd.randint(2,4)]
    P=[rp(c,rnd.randint(1,5)) for _ in range(3)]
    for pv in (1,2,3,'inf'):
        d=[[lp_dist(a,b,pv) for b in P] for a in P]
        A,B=dist(P[0]),dist(P[1])
        keys=set(A)|set(B)
        if pv=='inf': exp=float(max(abs(A[k]-B[k]) for k in keys))
        else: exp=float(sum(abs(A[k]-B[k])**pv for k in keys))**(1/pv)
        if abs(d[0][1]-exp)>1e-9: bad+=1; print('VALUE',pv,d[0][1],exp)
        if abs(d[0][1]-d[1][0])>1e-12: bad+=1; print('SYM')
        if d[0][2]>d[0][1]+d[1][2]+1e-12: bad+=1; print('TRI')
        if d[0][0]!=0: bad+=1; print('ZERO')
        # rescale/reorder/condense
        Q=PreferenceProfile(ballots=tuple(Ballot(ranking=b.ranking,weight=b.weight*3) for b in reversed(P[0].ballots)))
        if lp_dist(P[0],Q,pv)!=0: bad+=1; print('RESCALE', lp_dist(P[0],Q,pv))
        if lp_dist(P[0],P[0].condense_ballots(),pv)!=0: bad+=1; print('CONDENSE')
print('lp bad',bad)
# ballot graph reference
def refgraph(n):
    nodes=set()
    for L in range(1,n+1):
        if L==n-1: continue
        nodes|=set(itertools.permutations(range(1,n+1),L))
    edges=set()
    for a in nodes:
        for i in range(len(a)-1):
            b=list(a); b[i],b[i+1]=b[i+1],b[i]; b=tuple(b)
            if b in nodes: edges.add(frozenset((a,b)))
        # add/remove last
        if len(a)>=2 and a[:-1] in nodes: edges.add(frozenset((a,a[:-1])))
        if len(a)==n and n>=3:
            if a[:-2] in nodes: edges.add(frozenset((a,a[:-2])))
    return nodes,edges
for n in range(2,7):
    g=BallotGraph(n).graph
    N,E=refgraph(n)
    ge=set(frozenset(e) for e in g.edges if e[0]!=e[1])
    print(n, set(g.nodes)==N, ge==E, len(N), len(E), len(ge), 'selfloops', sum(1 for e in g.edges if e[0]==e[1]))
    if ge!=E:
        print('  extra', list(ge-E)[:5], 'missing', list(E-ge)[:5])
