import sys, random, csv, os, collections, itertools
sys.path[:0] = ['/repo/src', __import__('os').path.join(__import__('os').path.dirname(__import__('os').path.abspath(__file__)) if '__file__' in globals() else '.', 'shim')]
from fractions import Fraction as F
from votekit.cvr_loaders import load_csv
os.makedirs('csvs',exist_ok=True)
rnd=random.Random(3)
NAMES=['Ann','Bob Lee','O"Neil','Dee, Jr.','é','x y z','UWI','undervote']
cnt=collections.Counter()
for it in range(600):
    ncol=rnd.randint(1,5); nrow=rnd.randint(1,12)
    cands=rnd.sample(NAMES, rnd.randint(1,len(NAMES)))
    delim=rnd.choice([',',',',';','|','\t'])
    has_id=rnd.random()<0.5
    rows=[]
    for i in range(nrow):
        k=rnd.randint(0,ncol)
        r=[rnd.choice(cands) for _ in range(k)]+['']*(ncol-k)
        if rnd.random()<0.2: rnd.shuffle(r)
        rows.append(r)
    if all(all(x=='' for x in r) for r in rows): rows[0][0]=cands[0]
    header=[f'rank {i+1}' for i in range(ncol)]
    idpos=None
    table=[list(r) for r in rows]
    if has_id:
        idpos=rnd.randint(0,ncol)
        header.insert(idpos,'voter'); 
        for i,r in enumerate(table): r.insert(idpos,f'v{i}')
    with open('csvs/g.csv','w',newline='',encoding='utf8') as f:
        w=csv.writer(f,delimiter=delim); w.writerow(header); w.writerows(table)
    # config
    if rnd.random()<0.5:
        sel=list(range(ncol)); rank_cols=[]
    else:
        sel=rnd.sample(range(ncol), rnd.randint(1,ncol)); rank_cols=None
    # map selected rank col (in rank space) to file col index
    filecol=lambda j: j if idpos is None or j<idpos else j+1
    kw={}
    if rank_cols is None: kw['rank_cols']=[filecol(j) for j in sel]
    if has_id: kw['id_col']=idpos
    if delim!=',': kw['delimiter']=delim
    exp=collections.defaultdict(lambda:[0,set()])
    for i,r in enumerate(rows):
        key=tuple(r[j] if r[j]!='' else None for j in sel)
        exp[key][0]+=1; exp[key][1].add(f'v{i}')
    cfg=('rank_cols' in kw, has_id, (idpos==len(kw.get('rank_cols',[])) if has_id and 'rank_cols' in kw else None))
    try:
        p=load_csv('csvs/g.csv',**kw)
    except BaseException as e:
        cnt[(cfg,'EXC',type(e).__name__,str(e)[:40])]+=1; continue
    got={}
    for b in p.ballots:
        key=tuple(next(iter(s)) for s in b.ranking)
        got[key]=(b.weight, b.voter_set)
    ok = set(got)==set(exp) and all(got[k][0]==exp[k][0] and (not has_id or got[k][1]==exp[k][1]) for k in exp) and p.total_ballot_wt==nrow
    cnt[(cfg,'ok' if ok else 'MISMATCH')]+=1
    if not ok and cnt[(cfg,'MISMATCH')]<=2: print(cfg,kw,header,table[:4],'\n   got',list(got.items())[:3],'\n   exp',list(exp.items())[:3])
for k,v in sorted(cnt.items(),key=str): print(v,k)
