"""Thresholds for the frequency tests (explicit false-alarm bound)."""
import math


def hoeffding_t(N, K, alpha=1e-9):
    """max over K cells of |empirical - true| exceeds t with probability < alpha"""
    return math.sqrt(math.log(2 * K / alpha) / (2 * N))


def pl_prob(ranking, w):
    """Plackett-Luce probability of a (possibly partial) ranking under weights w (dict)"""
    rest = sum(w.values())
    p = 1.0
    for c in ranking:
        p *= w[c] / rest
        rest -= w[c]
    return p
