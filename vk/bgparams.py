"""Ballot-generator parameter sets (JSON-able) and construction of the real generators."""
import math
from fractions import Fraction as F

SUPPORTS = [0.0, 0.05, 0.3, 1.0, 1.0, 2.0, 10.0, 0.001, 1e-6, 1e-10, 1e-13, 1000.0]
BLOC_NAMES = [["W", "C", "X", "Y", "V"], ["b2", "B1", "a3", "A4", "b0"], ["C", "W", "Z", "Q", "K"]]

SLATE_MODELS = ["slate_PlackettLuce", "slate_BradleyTerry", "AlternatingCrossover", "CambridgeSampler"]
NAME_MODELS = ["name_PlackettLuce", "short_name_PlackettLuce", "name_BradleyTerry", "name_Cumulative"]
SIMPLEX_MODELS = ["ImpartialCulture", "ImpartialAnonymousCulture", "BallotSimplex"]
SPATIAL_MODELS = ["OneDimSpatial", "Spatial", "ClusteredSpatial"]
ALL_MODELS = NAME_MODELS + SLATE_MODELS + SIMPLEX_MODELS + SPATIAL_MODELS


def directional_distance(voter, candidate):
    """an asymmetric 'distance' (a candidate to the right of the voter is three times as far as one equally far to the
    left): distinguishes distance(voter, candidate) from distance(candidate, voter)"""
    import numpy as np

    d = np.atleast_1d(candidate) - np.atleast_1d(voter)
    return float(np.sum(np.where(d > 0, 3.0 * d, -d)))


def split_unit(rnd, k, extremes=True):
    """k non-negative floats summing to 1 (within 1e-12), possibly with exact 0/1 entries"""
    if k == 1:
        return [1.0]
    t = rnd.random()
    if extremes and t < 0.15:
        v = [0.0] * k
        v[rnd.randrange(k)] = 1.0
        return v
    if extremes and t < 0.3:
        v = [rnd.choice([1, 2, 3, 5]) for _ in range(k)]
        v[rnd.randrange(k)] = 0
        if sum(v) == 0:
            v[0] = 1
    else:
        v = [rnd.choice([1, 1, 2, 3, 5, 7, 9]) for _ in range(k)]
    s = sum(v)
    out = [x / s for x in v]
    # make the float sum round to 1 at 8 places (always true) and keep entries exact where possible
    return out


def gen_params(rnd, nblocs=None, max_slate=3, zero_support=None, extremes=True):
    nb = nblocs or rnd.choice([1, 2, 2, 2, 3])
    names = rnd.choice(BLOC_NAMES)[:nb]
    sizes = [rnd.randint(1, max_slate) for _ in range(nb)]
    s2c = {b: [f"{b}{i + 1}" for i in range(sizes[j])] for j, b in enumerate(names)}
    zs = rnd.random() < 0.35 if zero_support is None else zero_support
    piv = {}
    for b in names:
        piv[b] = {}
        for s in names:
            d = {c: rnd.choice(SUPPORTS[1:]) for c in s2c[s]}
            if zs and len(d) > 1 and rnd.random() < 0.5:
                d[rnd.choice(s2c[s])] = 0.0
            piv[b][s] = d
    coh = {}
    for b in names:
        v = split_unit(rnd, nb, extremes)
        coh[b] = dict(zip(names, v))
    props = dict(zip(names, split_unit(rnd, nb, extremes)))

    # dictionaries are written in independent key orders: bloc order, slate order and candidate order inside an
    # interval need not agree (own bloc first, alphabetical, ...)
    def shuffled(d):
        ks = list(d)
        rnd.shuffle(ks)
        return {k: d[k] for k in ks}

    if rnd.random() < 0.6:
        piv = {b: shuffled({s: shuffled(d) for s, d in per.items()}) for b, per in shuffled(piv).items()}
        coh = {b: shuffled(d) for b, d in shuffled(coh).items()}
        if rnd.random() < 0.5:
            s2c = shuffled(s2c)
    return {"slate_to_candidates": s2c, "pref_intervals_by_bloc": piv, "cohesion_parameters": coh, "bloc_voter_prop": props}


def decoy(params):
    """a second, equally valid parameter set with the SAME bloc, slate and candidate names and other numbers (supports
    reversed inside each interval, cohesion rows and bloc proportions rotated): constructed between the construction and
    the use of the generator under test, it must not influence it"""
    def rot(d):
        ks, vs = list(d), list(d.values())
        vs = vs[1:] + vs[:1] if len(set(vs)) > 1 else vs
        return dict(zip(ks, vs))
    p2 = dict(params)
    p2["slate_to_candidates"] = {b: list(c) for b, c in params["slate_to_candidates"].items()}
    p2["pref_intervals_by_bloc"] = {b: {s: rot(d) if len(set(d.values())) > 1 else {c: v * (i + 2) for i, (c, v) in enumerate(d.items())}
                                        for s, d in per.items()} for b, per in params["pref_intervals_by_bloc"].items()}
    p2["cohesion_parameters"] = {b: rot(d) for b, d in params["cohesion_parameters"].items()}
    p2["bloc_voter_prop"] = rot(params["bloc_voter_prop"])
    return p2


def make_decoy(model, params, extra=None, use=True):
    """build (and optionally use) a decoy generator; never raises"""
    try:
        g = make(model, decoy(params), extra)
        if use:
            g.generate_profile(2)
        return True
    except Exception:  # noqa
        return False


def all_cands(params):
    return [c for cs in params["slate_to_candidates"].values() for c in cs]


def build_kwargs(params):
    from votekit.pref_interval import PreferenceInterval

    return dict(
        slate_to_candidates={b: list(cs) for b, cs in params["slate_to_candidates"].items()},
        pref_intervals_by_bloc={b: {s: PreferenceInterval(dict(d)) for s, d in per.items()}
                                for b, per in params["pref_intervals_by_bloc"].items()},
        bloc_voter_prop=dict(params["bloc_voter_prop"]),
        cohesion_parameters={b: dict(d) for b, d in params["cohesion_parameters"].items()},
    )


def make(model, params, extra=None):
    import votekit.ballot_generator as bg
    import numpy as np

    extra = extra or {}
    cls = getattr(bg, model)
    if model in SIMPLEX_MODELS:
        cands = list(params["candidates"])
        if model == "BallotSimplex":
            return cls.from_point(point=dict(params["point"]), candidates=cands)
        return cls(candidates=cands)
    if model == "OneDimSpatial":
        return cls(candidates=list(params["candidates"]))
    dist_kw = {}
    if params.get("distance") == "directional":
        dist_kw = {"distance": directional_distance}
    if model == "Spatial":
        return cls(candidates=list(params["candidates"]), **dist_kw,
                   voter_dist=np.random.uniform, voter_dist_kwargs={"low": 0.0, "high": 1.0, "size": params.get("dim", 2)},
                   candidate_dist=np.random.uniform, candidate_dist_kwargs={"low": 0.0, "high": 1.0, "size": params.get("dim", 2)})
    if model == "ClusteredSpatial":
        return cls(candidates=list(params["candidates"]), **dist_kw,
                   voter_dist=np.random.normal, voter_dist_kwargs={"loc": 0, "scale": 0.3, "size": params.get("dim", 2)},
                   candidate_dist=np.random.uniform, candidate_dist_kwargs={"low": 0.0, "high": 1.0, "size": params.get("dim", 2)})
    kw = build_kwargs(params)
    if model == "short_name_PlackettLuce":
        kw["ballot_length"] = extra["ballot_length"]
    if model == "name_Cumulative":
        kw["num_votes"] = extra["num_votes"]
    return cls(**kw)


# ------------------------------------------------------------------ reference quantities

def norm_interval(d):
    """non-zero supports rescaled to sum 1; zero-support set"""
    tot = sum(v for v in d.values())
    nz = {c: v / tot for c, v in d.items() if v > 0}
    z = {c for c, v in d.items() if v == 0}
    return nz, z


def combined_interval(params, bloc):
    """combined interval of `bloc` over all candidates: cohesion share x normalised interval"""
    out, zero = {}, set()
    for s, d in params["pref_intervals_by_bloc"][bloc].items():
        nz, z = norm_interval(d)
        zero |= z
        share = params["cohesion_parameters"][bloc][s]
        for c, v in nz.items():
            if v * share > 0:
                out[c] = v * share
            else:
                zero.add(c)
    tot = sum(out.values())
    return {c: v / tot for c, v in out.items()}, zero


def valid_hh(v, a, N, tol=1e-9):
    """is allocation a of N seats a valid Huntington-Hill apportionment for votes v (any tie-break)?"""
    if sum(a) != N or any(x < 0 for x in a):
        return False
    d = lambda k: math.sqrt(k * (k + 1))  # noqa
    pr = lambda vi, k: 0.0 if vi == 0 else (math.inf if k == 0 else vi / d(k))  # noqa
    nxt = max(pr(v[i], a[i]) for i in range(len(v)))
    lst = min((pr(v[i], a[i] - 1) for i in range(len(v)) if a[i] > 0), default=math.inf)
    return nxt <= lst * (1 + tol) or (math.isinf(nxt) and math.isinf(lst))


def make_from_params(model, params, extra=None, alpha=1.0):
    """construct through the documented from_params route (intervals drawn from a Dirichlet) and return
    (generator, params') where params' carries the intervals the generator actually holds"""
    import votekit.ballot_generator as bg

    extra = extra or {}
    cls = getattr(bg, model)
    names = list(params["bloc_voter_prop"])
    g = cls.from_params(
        slate_to_candidates={b: list(params["slate_to_candidates"][b]) for b in names},
        bloc_voter_prop=dict(params["bloc_voter_prop"]),
        cohesion_parameters={b: dict(d) for b, d in params["cohesion_parameters"].items()},
        alphas={b: {s: alpha for s in names} for b in names}, **extra)
    p2 = dict(params)
    p2["slate_to_candidates"] = {b: list(params["slate_to_candidates"][b]) for b in names}
    piv = {}
    for b in names:
        piv[b] = {}
        for s in names:
            iv = g.pref_intervals_by_bloc[b][s]
            d = {c: float(v) for c, v in iv.interval.items()}
            for c in iv.zero_cands:
                d[c] = 0.0
            piv[b][s] = d
    p2["pref_intervals_by_bloc"] = piv
    return g, p2
