import sys, random, itertools, math
sys.path[:0] = ['/repo/src', __import__('os').path.join(__import__('os').path.dirname(__import__('os').path.abspath(__file__)) if '__file__' in globals() else '.', 'shim')]
import votekit.ballot_generator as bg
from votekit.pref_interval import PreferenceInterval as PI, combine_preference_intervals as comb
def params(coh=(0.7,0.9), sizes=(2,2), zero=False):
    W = [f'W{i}' for i in range(1,sizes[0]+1)]; C=[f'C{i}' for i in range(1,sizes[1]+1)]
    def iv(cs, z):
        d = {c: 1.0/(i+1) for i,c in enumerate(cs)}
        if z and len(cs)>1: d[cs[-1]] = 0.0
        return PI(d)
    return dict(slate_to_candidates={'W':W,'C':C},
        pref_intervals_by_bloc={'W':{'W':iv(W,zero),'C':iv(C,False)},'C':{'W':iv(W,False),'C':iv(C,zero)}},
        bloc_voter_prop={'W':0.7,'C':0.3},
        cohesion_parameters={'W':{'W':coh[0],'C':1-coh[0]},'C':{'C':coh[1],'W':1-coh[1]}})
g = bg.name_BradleyTerry(**params(sizes=(2,1)))
for b in g.blocs:
    iv = g.pref_interval_by_bloc[b].interval
    raw = {}
    for perm in itertools.permutations(iv):
        p=1
        for i in range(len(perm)):
            for j in range(i+1,len(perm)):
                p*= iv[perm[i]]/(iv[perm[i]]+iv[perm[j]])
        raw[perm]=p
    s=sum(raw.values())
    err = max(abs(raw[k]/s - g.pdfs_by_bloc[b][k]) for k in raw)
    print(b, 'nBT maxerr', err, 'sum', sum(g.pdfs_by_bloc[b].values()))
for coh in [(0.7,0.9),(0.3,0.5),(1.0,0.0)]:
  for sizes in [(2,2),(3,1),(1,1)]:
    try:
        g = bg.slate_BradleyTerry(**params(coh=coh,sizes=sizes))
    except BaseException as e:
        print(coh,sizes,'EXC',type(e).__name__,e); continue
    for i,b in enumerate(g.blocs):
        o = g.blocs[1-i]
        c = g.cohesion_parameters[b][b]
        types = set(itertools.permutations([b]*sizes[i if b=='W' else 1-i if False else (0 if b=='W' else 1)] + [o]*sizes[1 if b=='W' else 0]))
        raw={}
        for t in types:
            own=sum(1 for x in range(len(t)) for y in range(x+1,len(t)) if t[x]==b and t[y]==o)
            oth=sum(1 for x in range(len(t)) for y in range(x+1,len(t)) if t[x]==o and t[y]==b)
            raw[t]= c**own*(1-c)**oth
        s=sum(raw.values())
        pdf=g.ballot_type_pdf[b]
        if s==0: print(coh,sizes,b,'all zero raw'); continue
        err=max(abs(raw[t]/s-pdf.get(t,0)) for t in raw)
        print(coh,sizes,b,'sBT maxerr',err,'n',len(pdf), 'sum', sum(pdf.values()))
print(comb([PI({'A':1,'B':3}),PI({'C':1,'D':0})],[0.25,0.75]).interval, comb([PI({'A':1,'B':3}),PI({'C':1,'D':0})],[0.25,0.75]).zero_cands)
print(PI({'A':0.0,'B':2,'C':-1}).interval, PI({'A':0.0,'B':2,'C':-1}).zero_cands, PI({'A':0.0,'B':2,'C':-1}).non_zero_cands)
