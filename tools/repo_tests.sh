#!/bin/sh
# Run the repository's own test-suite against a scratch copy of the *working tree*
# (the pinned baseline command imports the installed wheel instead).  Usage:
#   tools/repo_tests.sh [repo_dir] [extra pytest args]
REPO=${1:-/repo}; shift 2>/dev/null
S=$(mktemp -d /tmp/vk_repo_copy.XXXXXX)
rsync -a --exclude .git "$REPO"/ "$S"/
cd "$S" && PYTHONHASHSEED=0 PYTHONDONTWRITEBYTECODE=1 PYTHONPATH="$S/src:/verif/shims" /venv/bin/python -m pytest -q -p no:cacheprovider -x -n 14 "$@" 2>&1 | tail -15
rc=$?
cd / && rm -rf "$S"
exit $rc
