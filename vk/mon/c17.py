"""C17 — randomised rules and random tiebreaks draw from the documented distributions."""
import itertools
import random as _random
from fractions import Fraction as F

import numpy as _np

from .. import canon, gen, rng, rules, oracle
from ..core import observe
from ..ref import scoring
from ..stats import hoeffding_t

META = {
    "level": "exploration",
    "rule": ("law cases = (RandomDictator | BoostedRandomDictator, generated profile with first-place ties / partial ballots / "
             "rational weights, m, RNG script): every random.choices call must offer exactly the current profile's ballots with "
             "their weights, the induced candidate law is compared with the closed form (first-place share, ties split evenly) "
             "round by round along scripted paths; BoostedRandomDictator's branch is probed with random.uniform scripted at "
             "{0, tau-eps, tau, tau+eps, 1}, tau=1/(c-1), and the squares branch's (candidates, p) compared with normalised "
             "squared first-place shares. tiebreak cases: the random tiebreak must call a uniform permutation primitive on "
             "exactly the tied set and record the drawn order. frequency cases: winner sequences of 4k (thorough 40k) "
             "elections vs closed forms with Hoeffding thresholds (alpha 1e-9). distinct = hash(case); non-trivial = a "
             "first-place tie or >=2 seats or a frequency case."),
    "assumptions": ["random.choices(pop, weights, k=1) draws proportionally to weights; random.sample(pop, len(pop)) is a uniform "
                    "permutation; random.uniform(0,1) is uniform; np.random.choice(a, p=p) draws a[i] with probability p[i]"],
    "min_obs": {"all": {"rd_choice_calls_checked": 500, "brd_uniform_probes": 200, "brd_squares_calls_checked": 100,
                        "first_place_tie_permutations": 50, "tiebreak_sample_calls": 80, "freq_tests": 8}},
    "soft_deadline": {"quick": 200, "thorough": 3000},
}

EPS = 1e-9
U_MENU = [0.0, 1.0, 0.5 - EPS, 0.5 + EPS, 1 / 3 - EPS, 1 / 3 + EPS, 0.25 - EPS, 0.25 + EPS, 0.7, 0.1]


def current(cands, ballots, elected):
    keep = [c for c in cands if c not in elected]
    return keep, oracle.restrict(ballots, set(keep))


def rd_law(cands, ballots):
    """P(c) = share of first-place weight, a tied first place split evenly"""
    fp = scoring.first_place(cands, ballots)
    W = sum((w for _, w, _ in ballots), F(0))
    return {c: (fp[c] / W if W else F(0)) for c in cands}


def sq_law(cands, ballots):
    fp = scoring.first_place(cands, ballots)
    tot = sum((v * v for v in fp.values()), F(0))
    return {c: (fp[c] * fp[c] / tot if tot else F(0)) for c in cands}


def brd_law(cands, ballots):
    n = len(cands)
    if n == 1:
        return {cands[0]: F(1)}
    tau = F(1, n - 1)
    rd, sq = rd_law(cands, ballots), sq_law(cands, ballots)
    return {c: tau * sq[c] + (1 - tau) * rd[c] for c in cands}


def seq_law(kind, cands, ballots, m):
    """law of the ordered winner sequence"""
    out = {}

    def rec(prefix, pr):
        if len(prefix) == m:
            out[tuple(prefix)] = out.get(tuple(prefix), F(0)) + pr
            return
        c2, b2 = current(cands, ballots, prefix)
        if not b2:
            return
        law = rd_law(c2, b2) if kind == "RandomDictator" else brd_law(c2, b2)
        for c, q in law.items():
            if q > 0:
                rec(prefix + [c], pr * q)

    rec([], F(1))
    return out


def ballots_ms(pop):
    d = {}
    for b in pop:
        k = tuple(b.ranking) if b.ranking else ()
        d[k] = d.get(k, F(0)) + b.weight
    return d


def plain_ms(ballots):
    d = {}
    for r, w, _ in ballots:
        k = tuple(frozenset(g) for g in r)
        d[k] = d.get(k, F(0)) + w
    return d


def check_choices_event(ctx, case, ev, c2, b2, rule):
    """the random.choices call must offer exactly the current profile's ballots with their weights"""
    pop, wts = ev["population"], ev["weights"]
    ctx.count("rd_choice_calls_checked")
    if wts is None or len(wts) != len(pop) or any(F(w) != b.weight for w, b in zip(wts, pop)):
        ctx.fail(f"{rule}: ballots are not drawn with probability proportional to their weights", case,
                 {"weights": [str(w) for w in (wts or [])], "ballot_weights": [str(b.weight) for b in pop]})
        return False
    if ballots_ms(pop) != plain_ms(b2):
        ctx.fail(f"{rule}: the ballots offered to the draw are not the current profile (initial ballots minus elected candidates)",
                 case, {"offered": canon.multiset_c({(k, frozenset()): v for k, v in ballots_ms(pop).items()}),
                        "expected": canon.multiset_c({(k, frozenset()): v for k, v in plain_ms(b2).items()})})
        return False
    # induced law vs closed form
    W = sum((b.weight for b in pop), F(0))
    ind = {c: F(0) for c in c2}
    for b in pop:
        first = b.ranking[0]
        for c in first:
            ind[c] += b.weight / W / len(first)
    if ind != rd_law(c2, b2):
        ctx.fail(f"{rule}: induced candidate law differs from the first-place share", case, {})
        return False
    return True


def check_law(ctx, case, max_runs):
    cfg, spec = case["cfg"], case["profile"]
    rule = cfg["rule"]
    cands, ballots = canon.plain(spec)
    prof = canon.build_profile(spec)
    m = cfg["m"]
    has_tie = any(len(r[0]) > 1 for r, w, _ in ballots)
    script0 = case.get("script")
    if script0 is not None:
        r0 = rng.Rng("script", script=script0, uniform_menu=U_MENU)
        with r0:
            out0 = rules.run(cfg, prof)[0]
        runs = [(script0, out0, r0)]
    elif rule == "BoostedRandomDictator":
        # probe the mixing threshold: u just below / above every possible tau = 1/(c-1)
        runs = []
        for j in range(max_runs):
            rj = rng.Rng("script", script=[], policy="seeded", seed=int(canon.jhash([spec, j]), 16) % (2 ** 31), uniform_menu=U_MENU)
            with rj:
                oj = rules.run(cfg, prof)[0]
            runs.append(([d for d, _ in rj.trace], oj, rj))
    else:
        runs = rng.explore(lambda: rules.run(cfg, prof)[0], max_runs=max_runs, raw=True)
    for script, out, r in runs:
        c2 = dict(case)
        c2["script"] = script
        ctx.case({"cfg": cfg, "profile": spec, "script": script}, nontrivial=has_tie or m >= 2)
        if getattr(r, "divergence", None):
            ctx.fail(f"{cfg['rule']}: asked again in the same process, the count does not meet the random decisions it met before "
                     "(a decision that was drawn the first time is not drawn again)", c2, r.divergence)
            break
        if not out.ok:
            ctx.count("constructor_raised_skipped")  # C01
            continue
        e = out.value
        st = e.election_states
        evs = list(r.events)
        k = 0
        elected = []
        for i in range(1, len(st)):
            cc, bb = current(cands, ballots, elected)
            won = [c for g in st[i].elected for c in g]
            if len(won) != 1:
                ctx.fail(f"{rule}: a round elected {len(won)} candidates", c2, {"round": i})
                return
            w = won[0]
            if rule == "BoostedRandomDictator":
                if k >= len(evs) or evs[k]["prim"] != "random.uniform":
                    ctx.count("law_structure_unrecognised")
                    return
                u = evs[k]["result"]
                if evs[k]["a"] != 0 or evs[k]["b"] != 1:
                    ctx.fail("BoostedRandomDictator: mixing variable is not uniform on [0,1]", c2, {"a": evs[k]["a"], "b": evs[k]["b"]})
                    return
                k += 1
                n = len(cc)
                ctx.count("brd_uniform_probes")
                if n == 1:
                    if w != cc[0]:
                        ctx.fail("BoostedRandomDictator: single remaining candidate not elected", c2, {})
                        return
                    elected.append(w)
                    continue
                tau = 1.0 / (n - 1)
                squares = k < len(evs) and evs[k]["prim"] == "np.choice"
                if (u < tau - 1e-12 and not squares) or (u > tau + 1e-12 and squares):
                    ctx.fail("BoostedRandomDictator: proportional-to-squares branch is not taken with probability 1/(c-1)", c2,
                             {"u": u, "tau": tau, "squares_branch": squares, "round": i})
                    return
                if squares:
                    ev = evs[k]
                    k += 1
                    ctx.count("brd_squares_calls_checked")
                    exp = sq_law(cc, bb)
                    a = [str(x) for x in ev["a"]]
                    pv = ev["p"]
                    if set(a) != set(cc) or len(a) != len(cc) or pv is None or any(abs(float(exp[c]) - pr) > 1e-9 for c, pr in zip(a, pv)):
                        ctx.fail("BoostedRandomDictator: squares branch does not draw candidates with probability proportional to "
                                 "squared first-place shares", c2, {"a": a, "p": pv, "expected": {c: float(v) for c, v in exp.items()}})
                        return
                    if str(ev["result"]) != w:
                        ctx.fail("BoostedRandomDictator: elected candidate is not the one drawn", c2, {"drawn": str(ev["result"]), "elected": w})
                        return
                    elected.append(w)
                    continue
            # dictator branch
            if k >= len(evs) or evs[k]["prim"] != "random.choices":
                if rule == "RandomDictator" and not any(len(rr[0]) > 1 for rr, w_, _ in ballots):
                    ctx.guard("extract", extract_single_draw_law, ctx, c2, cfg, prof, cands, ballots)
                else:
                    ctx.count("law_structure_unrecognised")
                return
            ev = evs[k]
            k += 1
            if not check_choices_event(ctx, c2, ev, cc, bb, rule):
                return
            drawn = ev["result"][0]
            first = drawn.ranking[0]
            if len(first) > 1:
                if k >= len(evs) or evs[k]["prim"] != "random.sample":
                    ctx.fail(f"{rule}: a tied first place is not resolved through a uniform permutation draw", c2, {})
                    return
                sv = evs[k]
                k += 1
                ctx.count("first_place_tie_permutations")
                if set(sv["population"]) != set(first) or len(sv["population"]) != len(first) or sv["k"] != len(first):
                    ctx.fail(f"{rule}: the permutation is not drawn over exactly the tied first-place candidates", c2,
                             {"population": sorted(map(str, sv["population"])), "tied": sorted(first)})
                    return
                if sv["result"][0] != w:
                    ctx.fail(f"{rule}: elected candidate is not the first of the drawn permutation", c2, {})
                    return
                tb = st[i].tiebreaks.get(first)
                if tb is None or [next(iter(g)) for g in tb] != list(sv["result"]):
                    ctx.fail(f"{rule}: recorded tiebreak differs from the drawn permutation", c2, {})
                    return
            elif w not in first:
                ctx.fail(f"{rule}: elected candidate is not in the drawn ballot's first position", c2,
                         {"elected": w, "first": sorted(first)})
                return
            elected.append(w)


def extract_single_draw_law(ctx, case, cfg, prof, cands, ballots):
    """Fallback when the ballot draw is not made through random.choices: if every round consumes exactly one
    random.random()/random.uniform() value, the law of each round is the Lebesgue measure of the set of values mapping to
    each winner (a step function, located by a grid plus bisection), conditionally on the winners so far; it is compared
    with the closed form.  Any other structure is left to the frequency tests (inconclusive here)."""
    m = cfg["m"]

    def winners(us):
        r = rng.Rng("tap", seed=1, floats=us)
        with r:
            o = rules.run(cfg, prof)[0]
        floats = [e for e in r.events if e.get("forced")]
        others = [e for e in r.events if not e.get("forced") and e["prim"] not in ("random.sample",)]
        if not o.ok or others or len(floats) != m:
            return None
        return [next(iter(g)) for g in o.value.get_elected()]

    if winners([0.5] * m) is None:
        ctx.count("law_structure_unrecognised")
        return
    ctx.count("single_draw_extractions")

    def rec(prefix_us, elected):
        k = len(prefix_us)
        if k == m:
            return True
        c2, b2 = current(cands, ballots, elected)
        if not b2:
            return True
        exp = rd_law(c2, b2)

        def at(u):
            w = winners(prefix_us + [u] + [0.5] * (m - k - 1))
            return None if w is None or w[:k] != elected else w[k]

        grid = [(i + 0.5) / 48 for i in range(48)]
        vals = [at(u) for u in grid]
        measure = {}
        lo = 0.0
        for i in range(len(grid)):
            hi = 1.0
            if i + 1 < len(grid):
                if vals[i + 1] == vals[i]:
                    continue
                a, b_ = grid[i], grid[i + 1]
                for _ in range(36):
                    mid = (a + b_) / 2
                    if at(mid) == vals[i]:
                        a = mid
                    else:
                        b_ = mid
                hi = (a + b_) / 2
            if vals[i] is not None:
                measure[vals[i]] = measure.get(vals[i], 0.0) + hi - lo
            lo = hi
        for c in c2:
            if abs(measure.get(c, 0.0) - float(exp[c])) > 1e-6:
                ctx.fail(f"{cfg['rule']}: the law of seat {k + 1} given the winners so far (extracted from the single uniform draw) "
                         "differs from the share of the current first-place weight", case,
                         {"elected_so_far": elected, "candidate": c, "measured": measure.get(c, 0.0), "closed_form": float(exp[c])})
                return False
        for c in c2:
            us = [grid[i] for i in range(len(grid)) if vals[i] == c]
            if us and float(exp[c]) > 0:
                if not rec(prefix_us + [us[len(us) // 2]], elected + [c]):
                    return False
        return True

    rec([], [])


def check_tiebreak(ctx, case, max_runs):
    """random tiebreak = uniform permutation of exactly the tied set, recorded as drawn"""
    cfg, spec = case["cfg"], case["profile"]
    prof = canon.build_profile(spec)
    for script, out, r in rng.explore(lambda: rules.run(cfg, prof)[0], max_runs=max_runs, raw=True):
        c2 = dict(case)
        c2["script"] = script
        ctx.case({"cfg": cfg, "profile": spec, "script": script}, nontrivial=bool(r.draws))
        if getattr(r, "divergence", None):
            ctx.fail(f"{cfg['rule']}: asked again in the same process, the count does not meet the random decisions it met before "
                     "(a decision that was drawn the first time is not drawn again)", c2, r.divergence)
            break
        if not out.ok:
            continue
        e = out.value
        samples = [ev for ev in r.events if ev["prim"] == "random.sample"]
        recs = [(K, R) for s in e.election_states for K, R in s.tiebreaks.items()]
        other = [ev for ev in r.events if ev["prim"] != "random.sample"]
        if other:
            ctx.fail(f"{cfg['rule']}: a random tiebreak used a primitive other than a uniform permutation draw", c2,
                     {"prims": sorted({ev["prim"] for ev in other})})
            continue
        for ev in samples:
            ctx.count("tiebreak_sample_calls")
            pop = ev["population"]
            if ev["k"] != len(pop) or len(set(pop)) != len(pop):
                ctx.fail(f"{cfg['rule']}: tiebreak draw is not a full permutation of a set", c2, {"k": ev["k"], "pop": list(map(str, pop))})
                break
            match = [R for K, R in recs if set(K) == set(pop)]
            simple = cfg["rule"] in ("Plurality", "SNTV", "Borda") or cfg["rule"] in rules.SCORE_RULES
            if cfg["rule"] in ("TopTwo", "Alaska", "CondoBorda"):
                # composite rules draw more often than they record (TopTwo draws the runoff order twice and uses one draw, Alaska
                # replays its STV stage): a draw whose result is thrown away does not touch the law of the one that decides.  So
                # here every draw must permute candidates inside a recorded tied set, and every recorded resolution that had draws
                # inside its set must list some draw's candidates in the drawn order (judged per record, below).
                ctx.count("composite_rule_permutations")
                if not any(set(pop) <= set(K) for K, _ in recs):
                    ctx.fail(f"{cfg['rule']}: permutation drawn over candidates that are not inside a recorded tied set", c2,
                             {"pop": sorted(map(str, pop)), "recorded": [sorted(K) for K, _ in recs]})
                    break
            elif cfg.get("tiebreak") != "random" or not simple:
                # scored tiebreak (or the STV family's elimination tiebreak by initial first-place votes) that left a sub-tie:
                # the permuted set lies inside a recorded tied set and the record lists it in the drawn order
                ctx.count("fallback_permutations")
                sup = [R for K, R in recs if set(pop) <= set(K)]
                if not sup:
                    ctx.fail(f"{cfg['rule']}: fallback permutation drawn over candidates that are not inside a recorded tied set", c2,
                             {"pop": sorted(map(str, pop)), "recorded": [sorted(K) for K, _ in recs]})
                    break
                if not any([c for g in R for c in g if c in set(pop)] == list(ev["result"]) for R in sup):
                    ctx.fail(f"{cfg['rule']}: recorded resolution does not list the sub-tie in the drawn order", c2,
                             {"pop": sorted(map(str, pop)), "drawn": list(map(str, ev["result"]))})
                    break
            else:
                # the permuted set is exactly the recorded tied set and the record is the drawn order
                if not match:
                    ctx.fail(f"{cfg['rule']}: permutation drawn over a set that is not a recorded tied set", c2,
                             {"pop": sorted(map(str, pop)), "recorded": [sorted(K) for K, _ in recs]})
                    break
                if [next(iter(g)) for g in match[0]] != list(ev["result"]):
                    ctx.fail(f"{cfg['rule']}: recorded resolution differs from the drawn permutation", c2, {})
                    break
        if cfg["rule"] in ("TopTwo", "Alaska", "CondoBorda"):
            for K, R in recs:
                inside = [ev for ev in samples if set(ev["population"]) <= set(K) and len(ev["population"]) >= 2]
                if inside:
                    ctx.count("composite_rule_records_explained")
                    flat = [c for g in R for c in g]
                    if not any([c for c in flat if c in set(ev["population"])] == list(ev["result"]) for ev in inside):
                        ctx.fail(f"{cfg['rule']}: a recorded resolution follows none of the permutations drawn inside its tied set", c2,
                                 {"tied": sorted(map(str, K)), "recorded": list(map(str, flat)),
                                  "drawn": [list(map(str, ev["result"])) for ev in inside]})
                        break


def check_freq(ctx, case):
    kind, N = case["test"], case["N"]
    ctx.case(case, nontrivial=True)
    _random.seed(case["seed"])
    _np.random.seed(case["seed"] % 2 ** 32)
    import votekit.elections as el

    spec = case["profile"]
    cands, ballots = canon.plain(spec)
    prof = canon.build_profile(spec)
    counts = {}
    if kind in ("RandomDictator", "BoostedRandomDictator"):
        m = case["m"]
        law = {k: float(v) for k, v in seq_law(kind, cands, ballots, m).items()}
        cls = getattr(el, kind)
        for _ in range(N):
            e = cls(prof, m)
            k = tuple(c for g in e.get_elected() for c in g)
            counts[k] = counts.get(k, 0) + 1
        label = f"{kind} m={m} winner sequence"
    elif kind == "tie_seat":
        # 3-way boundary tie under Plurality(random): each tied candidate equally likely to take the seat
        law = {c: 1 / 3 for c in cands[:3]}
        for _ in range(N):
            e = el.Plurality(prof, m=1, tiebreak="random")
            w = next(iter(e.get_elected()[0]))
            counts[w] = counts.get(w, 0) + 1
        label = "random tiebreak: who takes the contested seat"
    else:  # tie_elim: 3-way tie for elimination in IRV
        low = case["low"]
        law = {c: 1 / len(low) for c in low}
        for _ in range(N):
            e = el.IRV(prof, tiebreak="random")
            x = next(iter(e.election_states[1].eliminated[0]))
            counts[x] = counts.get(x, 0) + 1
        label = "random tiebreak: who is eliminated"
    K = max(2, len(law))
    t = hoeffding_t(N, K, 1e-9)
    keys = set(counts) | set(law)
    worst = max(keys, key=lambda k: abs(counts.get(k, 0) / N - law.get(k, 0.0)))
    dev = abs(counts.get(worst, 0) / N - law.get(worst, 0.0))
    ctx.count("freq_tests")
    ctx.extra.setdefault("freq", []).append({"test": label, "N": N, "cells": K, "max_dev": dev, "threshold": t})
    if dev > t:
        ctx.fail(f"frequency test ({label}): empirical law deviates from the closed form beyond the Hoeffding threshold", case,
                 {"cell": str(worst), "empirical": counts.get(worst, 0) / N, "closed_form": law.get(worst, 0.0), "threshold": t})


def freq_cases(N, seed):
    B = lambda r, w=1: canon.spec_ballot(r=[list(g) if isinstance(g, (list, tuple)) else [g] for g in r], w=w)  # noqa
    P = canon.spec_profile
    p1 = P(["A", "B", "C"], [B(["A", "B", "C"], 5), B(["B", "C"], 3), B([["A", "C"], "B"], 2), B(["C"], F(1, 2))])
    p2 = P(["A", "B", "C", "D"], [B(["A", "B"], 4), B(["B", "A", "C"], 3), B([["C", "D"]], 2), B(["D", "A"], 1)])
    p3 = P(["A", "B", "C", "D"], [B(["A", "D"], 2), B(["B", "D"], 2), B(["C", "D"], 2), B(["D"], 1)])
    p4 = P(["A", "B", "C", "D", "E"], [B(["A", "B"], 3), B(["B", "A"], 3), B(["C", "A"], 1), B(["D", "A"], 1), B(["E", "B"], 1)])
    # ballots that exhaust once their candidates are elected (bullet votes / short ballots): the next seat must be drawn
    # from the weight that is still there
    p5 = P(["A", "B", "C"], [B(["A"], 5), B(["B", "C"], 1), B(["C", "B"], 1)])
    p6 = P(["A", "B", "C", "D"], [B(["A", "B"], 4), B(["B", "A"], 3), B(["C", "D"], 2), B(["D"], 1)])
    out = []
    for kind in ("RandomDictator", "BoostedRandomDictator"):
        out.append({"kind": "freq", "test": kind, "m": 2, "profile": p5, "N": N})
        out.append({"kind": "freq", "test": kind, "m": 3, "profile": p6, "N": N})
        out.append({"kind": "freq", "test": kind, "m": 1, "profile": p1, "N": N})
        out.append({"kind": "freq", "test": kind, "m": 2, "profile": p2, "N": N})
        out.append({"kind": "freq", "test": kind, "m": 2, "profile": p1, "N": N})
    out.append({"kind": "freq", "test": "tie_seat", "profile": p3, "N": N})
    out.append({"kind": "freq", "test": "tie_elim", "profile": p4, "low": ["C", "D", "E"], "N": max(1000, N // 3)})
    for j, c in enumerate(out):
        c["seed"] = seed * 7919 + j
    return out


def run(ctx):
    rnd = ctx.rnd
    N = 3000 if ctx.quick else 40000
    has_freq = False
    for j, c in enumerate(freq_cases(N, ctx.seed)):
        if j % ctx.nshards == ctx.shard:
            ctx.guard("freq", check_freq, ctx, c)
            has_freq = True
    max_runs = 6 if ctx.quick else 40
    for i in range(ctx.n(1800, 40000) // (3 if has_freq and ctx.quick else 1)):
        if ctx.expired():
            break
        rule = ["RandomDictator", "BoostedRandomDictator"][i % 2]
        n = rnd.randint(1, 5)
        spec = gen.ranked(rnd, n=n, ties=rnd.random() < 0.6, maxb=6)
        if i % 6 == 1:
            # the laws depend on shares only: the same profile with every weight multiplied by 10^-12 .. 10^15
            spec = gen.rescaled(spec, rnd.choice(gen.FACTORS))
            ctx.count("rescaled_profiles")
        elif i % 29 == 0:
            spec, _ = gen.scale(rnd, mode=rnd.choice(["plain", "huge", "tiny"]))
            n = len(spec["cands"])
            ctx.count("large_profiles")
        m = rnd.randint(1, min(3, n))
        ctx.guard("law", check_law, ctx, {"kind": "law", "cfg": {"rule": rule, "m": m}, "profile": spec}, max_runs)
        if i % 2 == 0:
            r2 = rnd.choice(["Plurality", "Borda", "SNTV", "Approval", "TopTwo", "Alaska", "CondoBorda", "Limited", "Cumulative",
                             "Rating", "BlocPlurality"])
            if r2 in rules.SCORE_RULES:
                from .. import cases as _cases

                c = _cases.score_case(rnd, r2)
            elif r2 in ("TopTwo", "Alaska", "CondoBorda"):
                # every rule breaks its ties through the same law: composite and pairwise rules too
                from .. import cases as _cases

                c = _cases.ranking_case(rnd, r2, maxn=5)
                if c["cfg"].get("transfer") == "random":
                    c["cfg"]["transfer"] = "fractional"
                ctx.count("tiebreak_cases_composite_rules")
            else:
                tag = rnd.choice(["tie_top", "tie_boundary", "overquota"])
                sp, mm = gen.hostile(rnd, tag, n=rnd.randint(2, 5))
                c = {"cfg": {"rule": r2, "m": mm}, "profile": sp}
            c["cfg"]["tiebreak"] = "random"
            c["kind"] = "tiebreak"
            ctx.guard("tiebreak", check_tiebreak, ctx, c, max_runs)
            if r2 in ("Plurality", "Borda", "SNTV") and i % 4 == 0:
                # scored tiebreaks that cannot separate the tied candidates fall back to a random permutation of the sub-tie
                c3 = {"cfg": dict(c["cfg"], tiebreak=rnd.choice(["borda", "first_place"])), "profile": c["profile"], "kind": "tiebreak"}
                ctx.guard("tiebreak", check_tiebreak, ctx, c3, max_runs)
            if i % 4 == 2:
                # STV family: a tie for elimination is ordered by initial first-place votes, sub-ties at random
                from .. import cases as _cases

                c4 = _cases.ranking_case(rnd, rnd.choice(["STV", "IRV", "SequentialRCV"]), maxn=5)
                if c4["cfg"].get("transfer") == "random":
                    c4["cfg"]["transfer"] = "fractional"
                ctx.guard("tiebreak", check_tiebreak, ctx, {"cfg": c4["cfg"], "profile": c4["profile"], "kind": "tiebreak"}, max_runs)


def post(results, fails, counters):
    freq = [x for r in results for x in r["extra"].get("freq", [])]
    return {"coverage": {"frequency_tests": freq}}


def replay(ctx, case):
    if case["kind"] == "law":
        check_law(ctx, case, 1)
    elif case["kind"] == "tiebreak":
        check_tiebreak(ctx, case, 6)
    else:
        check_freq(ctx, case)
