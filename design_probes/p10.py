import sys, random, itertools, io, contextlib, collections
sys.path[:0] = ['/repo/src', __import__('os').path.join(__import__('os').path.dirname(__import__('os').path.abspath(__file__)) if '__file__' in globals() else '.', 'shim')]
from fractions import Fraction as F
from votekit import Ballot, PreferenceProfile
from votekit.elections import STV, SequentialRCV
import math
random.seed(int(sys.argv[1]) if len(sys.argv)>1 else 0)
def rprof(n, nb):
    cands = [chr(65+i) for i in range(n)]
    bl=[]
    for _ in range(nb):
        k = random.randint(1,n)
        r = random.sample(cands,k)
        w = random.choice([F(1),F(2),F(3),F(5),F(1,2),F(7,3)])
        bl.append((tuple(r), w))
    return cands, bl
def ref(cands, bl, m, quota, simult, seq, observed):
    """trace-validate observed states; returns list of problems"""
    N = sum(w for _,w in bl)
    T = int(N/(m+1))+1 if quota=='droop' else int(N/m)
    if T < 0: return ['T']
    probs=[]
    if observed.threshold != T: probs.append(('threshold', observed.threshold, T))
    ballots = collections.defaultdict(F)
    for r,w in bl: ballots[r]+=w
    standing=set(cands); elected=[]
    def tally():
        t={c:F(0) for c in standing}
        for r,w in ballots.items(): t[r[0]]+=w
        return t
    init=tally()
    st=observed.election_states
    def chk_state(i,t):
        s=st[i]
        if dict(s.scores)!=t: probs.append(('scores',i,dict(s.scores),t))
        # remaining order
        groups=collections.defaultdict(set)
        for c,v in t.items(): groups[v].add(c)
        exp=tuple(frozenset(groups[v]) for v in sorted(groups,reverse=True)) if t else (frozenset(),)
        if tuple(s.remaining)!=exp: probs.append(('remaining',i,s.remaining,exp))
    t=tally(); chk_state(0,t)
    i=0
    while len(elected)<m:
        i+=1
        if i>=len(st): probs.append(('too few states',)); break
        s=st[i]
        above=[c for c in standing if t[c]>=T]
        obs_el={c for g in s.elected for c in g}; obs_elim={c for g in s.eliminated for c in g}
        if above:
            if simult: exp_el=set(above)
            else:
                mx=max(t[c] for c in above); top=[c for c in above if t[c]==mx]
                if len(top)>1:
                    if obs_el and obs_el<=set(top) and len(obs_el)==1: exp_el=obs_el
                    else: probs.append(('1by1 tie',i,obs_el,top)); break
                else: exp_el={top[0]}
            if obs_el!=exp_el or obs_elim: probs.append(('elect',i,obs_el,exp_el,obs_elim)); break
            nb=collections.defaultdict(F)
            for r,w in ballots.items():
                f=r[0]
                if f in exp_el:
                    w2 = w if seq else w*(t[f]-T)/t[f]
                else: w2=w
                r2=tuple(c for c in r if c not in exp_el)
                if r2 and w2>0: nb[r2]+=w2
            ballots=nb; standing-=exp_el; elected+=list(exp_el)
        elif len(standing)==m-len(elected):
            if obs_el!=standing or obs_elim: probs.append(('default',i,obs_el,standing)); break
            elected+=list(standing); standing=set(); ballots={}
        else:
            mn=min(t.values()); low=[c for c in standing if t[c]==mn]
            if len(low)>1:
                mi=min(init[c] for c in low); low=[c for c in low if init[c]==mi]
            if len(obs_elim)!=1 or not obs_elim<=set(low) or obs_el: probs.append(('elim',i,obs_elim,low)); break
            e=next(iter(obs_elim))
            nb=collections.defaultdict(F)
            for r,w in ballots.items():
                r2=tuple(c for c in r if c!=e)
                if r2: nb[r2]+=w
            ballots=nb; standing.discard(e)
        t=tally(); chk_state(i,t)
    if i!=len(st)-1: probs.append(('extra states',i,len(st)))
    return probs
cnt=collections.Counter()
for it in range(600):
    n=random.randint(1,5); cands,bl=rprof(n, random.randint(1,7))
    m=random.randint(1,n); quota=random.choice(['droop','droop','hare']); simult=random.random()<0.5; seq=random.random()<0.3
    prof=PreferenceProfile(ballots=tuple(Ballot(ranking=tuple(frozenset([c]) for c in r),weight=w) for r,w in bl), candidates=tuple(cands))
    try:
        with contextlib.redirect_stdout(io.StringIO()):
            e=(SequentialRCV(prof,m=m,quota=quota,simultaneous=simult,tiebreak='random') if seq else STV(prof,m=m,quota=quota,simultaneous=simult,tiebreak='random'))
    except BaseException as ex:
        cnt[("EXC",quota,type(ex).__name__)]+=1; print("EXC",quota,simult,seq,m,cands,bl,type(ex).__name__,ex); continue
    p=ref(cands,bl,m,quota,simult,seq,e)
    cnt[('ok' if not p else 'BAD',quota)]+=1
    if p and cnt[('BAD',quota)]<=3: print(quota,simult,seq,m,bl,p[:2])
print(cnt)
