"""C14 — ballot generators return well-formed profiles of exactly the requested size."""
from fractions import Fraction as F

from .. import canon, bgparams as bp
from ..core import observe

META = {
    "level": "exploration",
    "rule": ("cases = (generator class, generated parameter set with 1-3 blocs, slate sizes 1-3, cohesion/proportion vectors "
             "including exact 0 and 1, zero-support candidates, N in {1,2,3,7,50,...}, seed) for every generator and entry "
             "point (generate_profile, by_bloc=True, generate_profile_MCMC, deterministic=False, generate_profile_with_dict). "
             "Monitors: total weight N, positive integer weights, non-empty rankings over declared candidates without "
             "repeats, completeness where documented, zero-support candidates only as a final tie, short-PL length, "
             "cumulative points, bloc profiles add up, bloc sizes / crossover split a valid Huntington-Hill apportionment. "
             "distinct = hash(case); non-trivial = >=2 blocs, N>=7 and some 0/1 parameter or zero-support candidate."),
    "assumptions": ["an apportionment is accepted iff it satisfies the divisor-method min-max inequality for d(k)=sqrt(k(k+1)) (any tie-break)"],
    "min_obs": {"all": {"profiles_checked": 600, "by_bloc_checked": 200, "hh_checks": 200, "crossover_split_checks": 40,
                        "zero_support_cases": 50, "mcmc_checked": 40, "spatial_checked": 40,
                        "cambridge_split_observable_checks": 10}},
}

NS = [1, 2, 3, 7, 7, 50]


def gen_case(rnd, i, thorough):
    case = _gen_case(rnd, i, thorough)
    if rnd.random() < 0.25:
        case["warmup"] = rnd.choice([1, 2, 5, 11])
    if rnd.random() < 0.3:
        case["decoy"] = rnd.choice(["build", "use"])
    return case


def _gen_case(rnd, i, thorough):
    model = bp.ALL_MODELS[i % len(bp.ALL_MODELS)]
    N = rnd.choice(NS + ([1000] if thorough and rnd.random() < 0.1 else []))
    case = {"model": model, "N": N, "seed": rnd.randrange(10 ** 6)}
    if model in bp.SIMPLEX_MODELS or model in bp.SPATIAL_MODELS:
        n = rnd.randint(1, 5)
        cs = [f"k{j}" for j in range(n)]
        rnd.shuffle(cs)
        case["params"] = {"candidates": cs}
        if model == "BallotSimplex":
            # strictly positive dyadic entries (multiples of 1/16) so that the float sum is exactly 1.0; a zero entry
            # would make every complete ranking impossible and is not a valid point for this model
            parts = [1] * n
            for _ in range(16 - n):
                parts[rnd.randrange(n)] += 1
            p2 = [x / 16 for x in parts]
            case["params"]["point"] = dict(zip(cs, p2))
        if model in ("Spatial", "ClusteredSpatial"):
            case["params"]["dim"] = rnd.choice([1, 2, 3])
        if model == "ClusteredSpatial":
            case["by_cand"] = {c: rnd.randint(0, 3) for c in cs}
            case["by_cand"][cs[0]] = max(1, case["by_cand"][cs[0]])  # N from 1 upward
        return case
    nb = 2 if model in ("AlternatingCrossover", "CambridgeSampler") else (rnd.choice([1, 2]) if model == "slate_BradleyTerry" else None)
    big = model in ("name_PlackettLuce", "short_name_PlackettLuce", "name_Cumulative", "slate_PlackettLuce", "AlternatingCrossover") \
        and rnd.random() < 0.05
    p = bp.gen_params(rnd, nblocs=nb, max_slate=(8 if big else 3) if model != "name_BradleyTerry" else 2)
    if big or rnd.random() < 0.03:
        case["N"] = rnd.choice([1000, 2003, 5000])  # beyond hand size: slates of up to 8 candidates, thousands of voters
    case["params"] = p
    n = len(bp.all_cands(p))
    if model == "short_name_PlackettLuce":
        case["extra"] = {"ballot_length": rnd.randint(1, n)}
    if model == "name_Cumulative":
        case["extra"] = {"num_votes": rnd.randint(1, 4)}
    case["entry"] = "generate_profile"
    if rnd.random() < 0.2:
        case["reuse_inputs"] = True
    elif rnd.random() < 0.15:
        # the documented from_params route: intervals are drawn from a Dirichlet (small alpha gives tiny supports)
        case["from_params"] = True
        case["alpha"] = rnd.choice([0.01, 0.1, 1.0, 10.0])
        s2c = p["slate_to_candidates"]
        p["slate_to_candidates"] = {b: s2c[b] for b in p["bloc_voter_prop"]}  # from_params compares the key *views*
    if model == "name_BradleyTerry" and rnd.random() < 0.4:
        case["entry"] = "generate_profile_MCMC"
    if model == "slate_BradleyTerry" and rnd.random() < 0.4:
        case["entry"] = "mcmc"
    return case


def ballot_cands(b):
    return [c for g in (b.ranking or ()) for c in g]


def check_case(ctx, case):
    import random
    import numpy as np

    model, N, p = case["model"], case["N"], case["params"]
    extra = case.get("extra", {})
    random.seed(case["seed"])
    np.random.seed(case["seed"] % (2 ** 32))
    if case.get("from_params"):
        og = observe(bp.make_from_params, model, p, extra, case.get("alpha", 1.0))
        ctx.count("from_params_constructions")
        if og.ok:
            g0, p = og.value
            og.value = g0
    elif case.get("reuse_inputs") and "slate_to_candidates" in p:
        # state leaks: the same parameter objects (PreferenceInterval instances, dictionaries) are used for two
        # generators; the first one generates a profile, the second one is the one that is checked
        def make_twice():
            import votekit.ballot_generator as bg

            kw = bp.build_kwargs(p)
            if model == "short_name_PlackettLuce":
                kw["ballot_length"] = extra["ballot_length"]
            if model == "name_Cumulative":
                kw["num_votes"] = extra["num_votes"]
            snap = canon.jhash([{b: {s: [dict(iv.interval), sorted(iv.zero_cands)] for s, iv in per.items()}
                                 for b, per in kw["pref_intervals_by_bloc"].items()}, kw["cohesion_parameters"], kw["bloc_voter_prop"],
                                kw["slate_to_candidates"]])
            g1 = getattr(bg, model)(**kw)
            try:
                g1.generate_profile(max(1, N // 2))
            except Exception:  # noqa  (judged on the second generator / by other cases)
                pass
            g2_ = getattr(bg, model)(**kw)
            snap2 = canon.jhash([{b: {s: [dict(iv.interval), sorted(iv.zero_cands)] for s, iv in per.items()}
                                  for b, per in kw["pref_intervals_by_bloc"].items()}, kw["cohesion_parameters"], kw["bloc_voter_prop"],
                                 kw["slate_to_candidates"]])
            return g2_, snap == snap2

        og = observe(make_twice)
        ctx.count("reused_input_constructions")
        if og.ok:
            g0, same = og.value
            og.value = g0
            if not same:
                ctx.fail(f"{model}: constructing a generator / generating a profile changed the parameter objects it was given", case, {})
                return
    else:
        og = observe(bp.make, model, p, extra)
    if not og.ok:
        ctx.fail(f"{model}: constructor raised {og.etype} on a valid parameter set", case, {"msg": str(og.exc)[:300]})
        return
    g = og.value
    if case.get("decoy") and "slate_to_candidates" in p and not case.get("from_params"):
        ctx.count("decoy_generators_built" if bp.make_decoy(model, p, extra, use=case["decoy"] == "use") else "decoy_raised")
    if case.get("warmup"):
        # the SAME generator object is first asked for another profile (other size, plain entry point); what is judged
        # below is its second answer - anything the first request left behind in the object shows there
        try:
            if model == "ClusteredSpatial":
                g.generate_profile_with_dict({c: (k + 1) % 3 for k, c in enumerate(case["by_cand"])})
            else:
                g.generate_profile(case["warmup"])
            ctx.count("warmup_requests_on_same_generator")
        except Exception:  # noqa  (a failing request is judged when it is the case itself)
            ctx.count("warmup_raised")
    random.seed(case["seed"])  # generation starts from the same stream whatever the construction consumed
    np.random.seed(case["seed"] % (2 ** 32))
    blocs = list(p.get("bloc_voter_prop", {}))
    extreme = any(v in (0.0, 1.0) for d in p.get("cohesion_parameters", {}).values() for v in d.values()) or \
        any(v in (0.0, 1.0) for v in p.get("bloc_voter_prop", {}).values())
    zs = any(v == 0 for per in p.get("pref_intervals_by_bloc", {}).values() for d in per.values() for v in d.values())
    if zs:
        ctx.count("zero_support_cases")
    ctx.case(case, nontrivial=len(blocs) >= 2 and N >= 7 and (extreme or zs))
    entry = case.get("entry", "generate_profile")
    by_bloc = None
    if model in bp.SPATIAL_MODELS:
        if model == "ClusteredSpatial":
            o = observe(g.generate_profile_with_dict, case["by_cand"])
            N = sum(case["by_cand"].values())
        else:
            o = observe(g.generate_profile, N)
        if not o.ok:
            ctx.fail(f"{model}: generation raised {o.etype}", case, {"msg": str(o.exc)[:300]})
            return
        pp = o.value if model == "OneDimSpatial" else o.value[0]
        ctx.count("spatial_checked")
    elif model in bp.SIMPLEX_MODELS:
        o = observe(g.generate_profile, N)
        if not o.ok:
            ctx.fail(f"{model}: generation raised {o.etype}", case, {"msg": str(o.exc)[:300]})
            return
        pp = o.value
    else:
        if entry == "generate_profile_MCMC":
            o = observe(g.generate_profile_MCMC, N, by_bloc=True)
            ctx.count("mcmc_checked")
        elif entry == "mcmc":
            o = observe(g.generate_profile, N, by_bloc=True, deterministic=False)
            ctx.count("mcmc_checked")
        else:
            o = observe(g.generate_profile, N, by_bloc=True)
        if not o.ok:
            mech = None
            coh_ext = any(v in (0.0, 1.0) for d in p["cohesion_parameters"].values() for v in d.values())
            if entry in ("mcmc", "generate_profile_MCMC") and o.etype in ("IndexError", "ValueError") and single_state(model, p):
                mech = "mcmc-single-state"
            ctx.fail(f"{model}.{entry}: generation raised {o.etype} on a valid parameter set", case,
                     {"msg": str(o.exc)[:300], "tb": (o.tb or "")[-600:]}, mech=mech)
            return
        if not (isinstance(o.value, tuple) and len(o.value) == 2 and isinstance(o.value[0], dict)):
            ctx.fail(f"{model}.{entry}(by_bloc=True) did not return (profiles by bloc, aggregate profile)", case, {"type": type(o.value).__name__})
            return
        by_bloc, pp = o.value
        ctx.count("by_bloc_checked")
        # the same request without by_bloc must return just the aggregate profile, equally well formed; under the same
        # random stream it must be the same profile
        random.seed(case["seed"])
        np.random.seed(case["seed"] % (2 ** 32))
        g2 = observe(bp.make_from_params, model, case["params"], extra, case.get("alpha", 1.0)) if case.get("from_params") else observe(bp.make, model, p, extra)
        if g2.ok and not case.get("from_params"):
            gg = g2.value
            random.seed(case["seed"])
            np.random.seed(case["seed"] % (2 ** 32))
            o2 = observe(gg.generate_profile_MCMC, N) if entry == "generate_profile_MCMC" else (
                observe(gg.generate_profile, N, deterministic=False) if entry == "mcmc" else observe(gg.generate_profile, N))
            ctx.count("plain_entry_checked")
            if not o2.ok:
                ctx.fail(f"{model}.{entry}: generation without by_bloc raised {o2.etype}", case, {"msg": str(o2.exc)[:200]})
                return
            if isinstance(o2.value, tuple) or not hasattr(o2.value, "ballots"):
                ctx.fail(f"{model}.{entry}: without by_bloc the aggregate profile alone must be returned", case, {"type": type(o2.value).__name__})
                return
            if o2.value.total_ballot_wt != N:
                ctx.fail(f"{model}.{entry}: without by_bloc total weight {o2.value.total_ballot_wt} != requested {N}", case, {})
                return
            if canon.multiset(o2.value.ballots) != canon.multiset(pp.ballots):
                ctx.fail(f"{model}.{entry}: under the same random stream the profile differs with and without by_bloc", case, {})
                return
    ctx.count("profiles_checked")
    declared = set(bp.all_cands(p)) if "slate_to_candidates" in p else set(p["candidates"])
    # ---- aggregate well-formedness
    if pp.total_ballot_wt != N:
        ctx.fail(f"{model}: total weight {pp.total_ballot_wt} != requested {N}", case, {})
        return
    for b in pp.ballots:
        if b.weight <= 0 or b.weight.denominator != 1:
            ctx.fail(f"{model}: ballot weight is not a positive whole number", case, {"w": str(b.weight)})
            return
        cs = ballot_cands(b)
        if model == "name_Cumulative":
            if not b.scores or sum(b.scores.values()) != extra["num_votes"] or any(v.denominator != 1 or v <= 0 for v in b.scores.values()):
                ctx.fail("name_Cumulative: ballot does not distribute exactly num_votes whole points", case,
                         {"scores": {c: str(v) for c, v in (b.scores or {}).items()}})
                return
            if not set(b.scores) <= declared:
                ctx.fail("name_Cumulative: points for an undeclared candidate", case, {})
                return
            continue
        if not b.ranking or not cs or any(len(g) == 0 for g in b.ranking):
            ctx.fail(f"{model}: ballot with an empty ranking", case, {"ranking": canon.groups(b.ranking or ())},
                     mech=classify_empty(model, p, N))
            return
        if len(cs) != len(set(cs)) or not set(cs) <= declared:
            ctx.fail(f"{model}: ballot repeats a candidate or uses an undeclared one", case, {"ranking": canon.groups(b.ranking)})
            return
    # ---- per-bloc structure
    if by_bloc is not None:
        if canon.multiset([b for q in by_bloc.values() for b in q.ballots]) != canon.multiset(pp.ballots):
            ctx.fail(f"{model}: per-bloc profiles do not add up to the aggregate profile", case, {})
            return
        sizes = [int(by_bloc[b].total_ballot_wt) for b in blocs]
        props = [p["bloc_voter_prop"][b] for b in blocs]
        if model in ("AlternatingCrossover", "CambridgeSampler"):
            v, split = [], []
            for b in blocs:
                own = set(p["slate_to_candidates"][b])
                c = p["cohesion_parameters"][b][b]
                v += [c * p["bloc_voter_prop"][b], (1 - c) * p["bloc_voter_prop"][b]]
                o_first = sum((x.weight for x in by_bloc[b].ballots if x.ranking and next(iter(x.ranking[0])) in own), F(0))
                split += [int(o_first), int(by_bloc[b].total_ballot_wt - o_first)]
            ctx.count("hh_checks")
            # the bloc totals must be a valid apportionment of the pooled types
            tot_ok = bp.valid_hh(v, split, N)
            if model == "AlternatingCrossover":
                ctx.count("crossover_split_checks")
                if not tot_ok:
                    ctx.fail("AlternatingCrossover: bloc-first / opposing-first split is not a Huntington-Hill apportionment", case,
                             {"types": v, "split": split}, mech=classify_hh(v, split, N))
                    return
            else:
                # Cambridge: slate of the first candidate follows the historical ballot type; bloc sizes are what is apportioned
                pooled = [split[0] + split[1], split[2] + split[3]]
                ok2 = any(bp.valid_hh(v, [a, pooled[0] - a, c2, pooled[1] - c2], N)
                          for a in range(pooled[0] + 1) for c2 in range(pooled[1] + 1))
                ctx.count("crossover_split_checks")
                # when a bloc's voters have a supported candidate on BOTH slates and its cohesion is strictly between 0 and 1,
                # the historical ballot type's first letter is the slate of the first candidate: bloc voters start with their
                # own slate, crossover voters with the opposing one - so there the split itself is observable and must be the
                # apportioned one, exactly as for AlternatingCrossover
                observable = all(0 < p["cohesion_parameters"][b][b] < 1 and
                                 all(any(x > 0 for x in p["pref_intervals_by_bloc"][b][s_].values()) for s_ in blocs) for b in blocs)
                if observable:
                    ctx.count("cambridge_split_observable_checks")
                    if not tot_ok:
                        ctx.fail("CambridgeSampler: bloc-first / opposing-first split is not a Huntington-Hill apportionment of the "
                                 "voter types", case, {"types": v, "split": split}, mech=classify_hh(v, split, N))
                        return
                if not ok2:
                    ctx.fail("CambridgeSampler: bloc sizes are not consistent with a Huntington-Hill apportionment of the voter types",
                             case, {"types": v, "bloc_sizes": pooled}, mech=classify_hh(v, split, N, pooled=True))
                    return
        else:
            ctx.count("hh_checks")
            if not bp.valid_hh(props, sizes, N):
                ctx.fail(f"{model}: bloc sizes are not a Huntington-Hill apportionment of N", case,
                         {"props": props, "sizes": sizes}, mech=classify_hh(props, sizes, N))
                return
        # completeness / zero-support per bloc
        for b in blocs:
            q = by_bloc[b]
            if model in ("name_PlackettLuce", "name_BradleyTerry", "short_name_PlackettLuce", "name_Cumulative"):
                nz, zero = bp.combined_interval(p, b)
            else:
                zero = {c for d in p["pref_intervals_by_bloc"][b].values() for c, v in d.items() if v == 0}
                nz = {c: 1 for c in declared - zero}
            for x in q.ballots:
                cs = ballot_cands(x)
                if model in ("name_PlackettLuce", "name_BradleyTerry", "slate_PlackettLuce", "slate_BradleyTerry"):
                    if set(cs) != declared:
                        ctx.fail(f"{model}: ballot does not list every candidate", case, {"ranking": canon.groups(x.ranking)})
                        return
                    if zero:
                        last = set(x.ranking[-1])
                        body = [c for g in x.ranking[:-1] for c in g]
                        if last != zero or any(len(g) != 1 for g in x.ranking[:-1]) or set(body) & zero:
                            ctx.fail(f"{model}: zero-support candidates are not exactly the final tied group", case,
                                     {"ranking": canon.groups(x.ranking), "zero": sorted(zero)})
                            return
                    elif any(len(g) != 1 for g in x.ranking):
                        ctx.fail(f"{model}: tie on a ballot without zero-support candidates", case, {"ranking": canon.groups(x.ranking)})
                        return
                elif model == "short_name_PlackettLuce":
                    L = extra["ballot_length"]
                    if len(cs) != L:
                        ctx.fail("short_name_PlackettLuce: ballot does not have exactly ballot_length candidates", case,
                                 {"ranking": canon.groups(x.ranking), "L": L})
                        return
                    body = [g for g in x.ranking if len(g) == 1 and not (set(g) & zero)]
                    k = min(L, len(nz))
                    if [len(g) for g in x.ranking[:k]] != [1] * k or any(set(g) & zero for g in x.ranking[:k]) or \
                            any(not set(g) <= zero for g in x.ranking[k:]) or len(x.ranking) > k + 1:
                        ctx.fail("short_name_PlackettLuce: zero-support candidates are not a single final tie after the supported ones",
                                 case, {"ranking": canon.groups(x.ranking), "zero": sorted(zero)})
                        return
                elif model == "name_Cumulative":
                    if set(x.scores) & zero:
                        ctx.fail("name_Cumulative: points given to a zero-support candidate", case, {})
                        return
    else:
        for x in pp.ballots:
            cs = ballot_cands(x)
            if set(cs) != declared or any(len(g) != 1 for g in x.ranking):
                ctx.fail(f"{model}: ballot is not a complete untied ranking", case, {"ranking": canon.groups(x.ranking)})
                return
        if model == "BallotSimplex":
            zero = {c for c, v in p["point"].items() if v == 0}
            # a zero-probability candidate can never be placed above... (nothing to check structurally)


def classify_hh(v, a, N, pooled=False):
    """apportionment anomaly of the library VoteKit delegates to: a zero-proportion type receives ballots.
    pooled=True (CambridgeSampler): the per-type counts are not observable from outside, only the input
    condition under which the anomaly occurs is: fewer ballots than voter types and a type of proportion 0."""
    if not pooled and any(v[i] == 0 and a[i] > 0 for i in range(len(v))):
        return "apportion-zero-type"
    if pooled and N < len(v) and any(x == 0 for x in v):
        return "apportion-zero-type"
    return None


def classify_empty(model, p, N=None):
    """CambridgeSampler: a voter type with proportion exactly 0 (cohesion 0/1 or bloc share 0) can only receive
    ballots through the apportionment anomaly (fewer ballots than voter types); such a voter's leading slate has
    zero support, so the ballot comes out empty."""
    if model == "CambridgeSampler" and N is not None:
        types = []
        for b, pr in p["bloc_voter_prop"].items():
            c = p["cohesion_parameters"][b][b]
            types += [c * pr, (1 - c) * pr]
        if N < len(types) and any(t == 0 for t in types):
            return "apportion-zero-type"
    return None


def single_state(model, p):
    """does some bloc's MCMC chain have a single state (at most one supported candidate to order)?"""
    for b in p["bloc_voter_prop"]:
        if model == "name_BradleyTerry":
            nz, _ = bp.combined_interval(p, b)
            if len(nz) <= 1:
                return True
        else:
            k = sum(1 for d in p["pref_intervals_by_bloc"][b].values() for v in d.values() if v > 0)
            if k <= 1:
                return True
    return False


def directed_cases():
    """one directed case per known finding so that the KNOWN-FINDING lines do not depend on chance"""
    iv = lambda cs: {c: 1.0 for c in cs}  # noqa
    three = {"slate_to_candidates": {"W": ["W1"], "C": ["C1"], "X": ["X1"]},
             "pref_intervals_by_bloc": {b: {"W": iv(["W1"]), "C": iv(["C1"]), "X": iv(["X1"])} for b in ("W", "C", "X")},
             "cohesion_parameters": {b: {"W": 0.5, "C": 0.25, "X": 0.25} for b in ("W", "C", "X")},
             "bloc_voter_prop": {"W": 0.0, "C": 0.0, "X": 1.0}}
    one = {"slate_to_candidates": {"W": ["W1"]}, "pref_intervals_by_bloc": {"W": {"W": {"W1": 0.3}}},
           "cohesion_parameters": {"W": {"W": 1.0}}, "bloc_voter_prop": {"W": 1.0}}
    return [{"model": "name_PlackettLuce", "N": 2, "seed": 1, "params": three, "entry": "generate_profile"},
            {"model": "slate_BradleyTerry", "N": 3, "seed": 1, "params": one, "entry": "mcmc"},
            {"model": "name_BradleyTerry", "N": 3, "seed": 1, "params": one, "entry": "generate_profile_MCMC"}]


def run(ctx):
    if ctx.shard == 0:
        for c in directed_cases():
            ctx.guard("directed", check_case, ctx, c)
    for i in range(ctx.n(8000, 80000)):
        if ctx.expired():
            break
        ctx.guard("check", check_case, ctx, gen_case(ctx.rnd, i + ctx.shard, not ctx.quick))


def replay(ctx, case):
    check_case(ctx, case)
