import json,glob,sys,collections
pid=sys.argv[1]
c=collections.Counter(); ex={}
for f in glob.glob(f'/verif/replays/{pid}/*.json'):
    d=json.load(open(f)); k=(d['mech'], d['what'][:110]); c[k]+=1; ex.setdefault(k,f)
for k,v in c.most_common(): print(v,k,ex[k])
