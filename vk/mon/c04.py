"""C04 — positional scores follow the definition exactly; Plurality/SNTV/Borda elect the top m."""
from fractions import Fraction as F

from .. import canon, cases, rules, rng, oracle, gen
from ..core import observe
from ..ref import scoring

META = {
    "level": "exploration",
    "rule": ("score cases = (profile with tied positions / partial ballots / zero-vote candidates / rational weights, "
             "score vector shorter/equal/longer than n with int, Fraction and float entries) compared exactly with the "
             "reference scorer; election cases = Plurality/SNTV/Borda on such profiles under every tiebreak with the "
             "tiebreak RNG scripted. distinct = hash of case; non-trivial = a tie group or unlisted group of size >= 3, "
             "or a non-Borda vector."),
    "assumptions": ["vector entries are taken as Fraction(entry) (the exact value of a float entry)"],
    "min_obs": {"all": {"score_calls": 1000, "threeway_groups": 100, "float_vectors": 50, "elections_checked": 500,
                        "ballot_point_sums": 500, "invalid_vectors_rejected": 20}},
}

VEC_ENTRIES = [0, 1, 1, 2, 3, 5, F(1, 2), F(1, 3), F(7, 3), 0.5, 0.1, 0.3, 2.5]


def gen_vector(rnd, n):
    L = rnd.choice([max(1, n - 2), max(1, n - 1), n, n, n + 1, n + 3, 1])
    vec = sorted([rnd.choice(VEC_ENTRIES) for _ in range(L)], key=lambda v: F(v), reverse=True)
    return vec


def gen_score_case(rnd, maxn):
    n = rnd.randint(1, maxn)
    cs = gen.cands(rnd, n)
    kind = rnd.random()
    if kind < 0.25 and n >= 3:
        # three-way tie for first / three unlisted, where float averaging would show
        bl = [canon.spec_ballot(r=[rnd.sample(cs, 3)] + [[c] for c in rnd.sample(cs, 0)], w=gen.weight(rnd, "mixed"))]
        if n >= 4:
            rest = rnd.sample(cs, n - 3)
            bl.append(canon.spec_ballot(r=[[c] for c in rest], w=gen.weight(rnd, "rat")))
        bl += gen.ranked(rnd, cs=cs, ties=True, nb=rnd.randint(0, 4))["ballots"]
        spec = canon.spec_profile(cs, bl)
    else:
        spec = gen.ranked(rnd, cs=cs, ties=rnd.random() < 0.7, maxb=8)
    which = rnd.choice(["vector", "vector", "fpv", "borda", "mentions"])
    vec = gen_vector(rnd, n) if which == "vector" else None
    return {"kind": "score", "which": which, "profile": spec,
            "vector": None if vec is None else [canon.fs(v) if not isinstance(v, float) else canon.fs(v) for v in vec]}


def check_score(ctx, case):
    import votekit.utils as U

    spec = case["profile"]
    cands, ballots = canon.plain(spec)
    prof = canon.build_profile(spec)
    which = case["which"]
    n = len(cands)
    if which == "vector":
        vec = [canon.pf(v) for v in case["vector"]]
        # the vector is any sequence: one call in three hands over a tuple instead of a list
        as_tuple = int(canon.jhash([case["vector"], spec["cands"]])[:2], 16) % 3 == 0
        given = tuple(vec) if as_tuple else list(vec)
        if as_tuple:
            ctx.count("tuple_vectors")
        out = observe(U.score_profile_from_rankings, prof, given)
        ctx.count("input_vector_unchanged_checks")
        if list(given) != vec or len(given) != len(vec):
            ctx.fail("score_profile_from_rankings changed the score vector it was given (a caller reusing the list gets different "
                     "scores on the next call)", case, {"before": [canon.fs(v) for v in vec], "after": [canon.fs(v) for v in given]})
            return
        exp = scoring.positional(cands, ballots, vec)
        total = sum((F(v) for v in vec[:n]), F(0))
        if any(isinstance(v, float) for v in vec):
            ctx.count("float_vectors")
    elif which == "fpv":
        out = observe(U.first_place_votes, prof)
        exp = scoring.first_place(cands, ballots)
        total = F(1)
    elif which == "borda":
        out = observe(U.borda_scores, prof)
        exp = scoring.borda(cands, ballots)
        total = F(n * (n + 1), 2)
    else:
        out = observe(U.mentions, prof)
        exp = scoring.mentions(cands, ballots)
        total = None
    ctx.count("score_calls")
    big = any(len(g) >= 3 for r, w, _ in ballots for g in r) or any(
        n - sum(len(g) for g in r) >= 3 for r, w, _ in ballots)
    if big:
        ctx.count("threeway_groups")
    ctx.case(case, nontrivial=big or which == "vector")
    if not out.ok:
        ctx.fail(f"{which} scoring raised {out.etype} on a valid profile/vector", case, {"msg": str(out.exc)[:200]})
        return
    got = out.value
    if not all(isinstance(v, F) for v in got.values()):
        ctx.fail("scores are not exact Fractions", case, {"types": sorted({type(v).__name__ for v in got.values()})})
        return
    if dict(got) != exp:
        bad = {c: (str(got.get(c)), str(exp.get(c))) for c in set(got) | set(exp) if got.get(c) != exp.get(c)}
        ctx.fail(f"{which} scores differ from the definition", case, {"got_vs_expected": bad})
        return
    if total is not None:
        W = sum((w for _, w, _ in ballots), F(0))
        ctx.count("ballot_point_sums")
        if sum(got.values(), F(0)) != W * total:
            ctx.fail("points handed out do not sum to weight times the vector total", case,
                     {"sum": str(sum(got.values(), F(0))), "exp": str(W * total)})
    # to_float variant agrees within float precision
    if which != "mentions" and ctx.rnd.random() < 0.2:
        fn = {"vector": lambda: U.score_profile_from_rankings(prof, [canon.pf(v) for v in case["vector"]], True),
              "fpv": lambda: U.first_place_votes(prof, True), "borda": lambda: U.borda_scores(prof, True)}[which]
        o2 = observe(fn)
        if o2.ok and any(abs(o2.value[c] - float(exp[c])) > 1e-9 * max(1.0, abs(float(exp[c]))) for c in exp):
            ctx.fail("to_float scores differ from the exact scores", case, {})


def check_invalid_vectors(ctx):
    import votekit.utils as U

    prof = canon.build_profile(canon.spec_profile(["A", "B", "C"], [canon.spec_ballot(r=[["A"], ["B"]], w=1)]))
    for vec in ([3, 2, -1], [1, 2], [0, 0, 1], [2, 1, 1.5], [-1], [F(1, 2), F(2, 3)], [1, 0, F(1, 10 ** 6)]):
        out = observe(U.score_profile_from_rankings, prof, vec)
        ctx.count("invalid_vectors_rejected")
        ctx.case({"kind": "invalid_vector", "vector": [canon.fs(v) for v in vec]})
        if out.ok or out.etype != "ValueError":
            ctx.fail("negative or increasing score vector not rejected with ValueError", {"kind": "invalid_vector",
                     "vector": [canon.fs(v) for v in vec]}, {"outcome": repr(out)})
    # random perturbations: one entry negative, or one increase by the smallest margin
    for _ in range(12):
        vec = sorted([ctx.rnd.choice(VEC_ENTRIES) for _ in range(ctx.rnd.randint(1, 5))], key=lambda v: F(v), reverse=True)
        i = ctx.rnd.randrange(len(vec))
        if ctx.rnd.random() < 0.5 or i == 0:
            vec[i] = -ctx.rnd.choice([F(1, 10 ** 6), 1, 0.5])
            if i + 1 < len(vec):
                vec[i + 1:] = [vec[i]] * (len(vec) - i - 1)  # keep it non-increasing: only negativity is violated
        else:
            vec[i] = F(vec[i - 1]) + F(1, 10 ** 6)
        out = observe(U.score_profile_from_rankings, prof, vec)
        ctx.count("invalid_vectors_rejected")
        ctx.case({"kind": "invalid_vector", "vector": [canon.fs(v) for v in vec]})
        if out.ok or out.etype != "ValueError":
            ctx.fail("negative or increasing score vector not rejected with ValueError", {"kind": "invalid_vector",
                     "vector": [canon.fs(v) for v in vec]}, {"outcome": repr(out)})
    for vec in ([1, 1, 1], [0, 0, 0], [2, 2, 0], [5]):
        out = observe(U.score_profile_from_rankings, prof, vec)
        if not out.ok:
            ctx.fail("valid non-increasing vector rejected", {"kind": "valid_vector", "vector": vec}, {"outcome": repr(out)})


def check_vector_reuse(ctx, case):
    """the same score-vector LIST object used for two Borda elections / scoring calls on profiles of different sizes"""
    import votekit.elections as el
    import votekit.utils as U

    vec = [canon.pf(v) for v in case["vector"]]
    shared = list(vec)
    ctx.case(case, nontrivial=True)
    for i, spec in enumerate(case["profiles"]):
        cands, ballots = canon.plain(spec)
        prof = canon.build_profile(spec)
        exp = scoring.positional(cands, ballots, vec)
        if case["via"] == "borda":
            o = observe(lambda: el.Borda(prof, m=1, score_vector=shared, tiebreak="random"))
            got = dict(o.value.election_states[0].scores) if o.ok else None
        else:
            o = observe(U.score_profile_from_rankings, prof, shared)
            got = dict(o.value) if o.ok else None
        ctx.count("vector_reuse_calls")
        if not o.ok:
            ctx.fail(f"scoring with a reused vector list raised {o.etype} on call {i + 1}", case, {"msg": str(o.exc)[:200]})
            return
        if got != exp:
            ctx.fail(f"scores differ from the definition on call {i + 1} with a score-vector list that was used before", case,
                     {"call": i + 1, "got": canon.scores_c(got), "exp": canon.scores_c(exp), "vector_now": [canon.fs(v) for v in shared]})
            return
        if shared != vec:
            ctx.fail("a scoring call / Borda election changed the score-vector list it was given", case,
                     {"call": i + 1, "after": [canon.fs(v) for v in shared]})
            return


def check_election(ctx, case, max_runs):
    cfg, spec = case["cfg"], case["profile"]
    cands, ballots = canon.plain(spec)
    prof = canon.build_profile(spec)
    m = cfg["m"]
    sc = oracle.deciding_scores(cfg, cands, ballots)
    tie = scoring.boundary_tie(sc, m)
    script0 = case.get("script")
    if script0 is not None:
        r = rng.Rng("script", script=script0)
        with r:
            out = rules.run(cfg, prof)[0]
        runs = [(script0, out, r)]
    else:
        runs = rng.explore(lambda: rules.run(cfg, prof)[0], max_runs=max_runs, raw=True)
    for script, out, r in runs:
        c2 = dict(case)
        c2["script"] = script
        big = any(len(g) >= 3 for rr, w, _ in ballots for g in rr)
        ctx.case({"cfg": cfg, "profile": spec, "script": script}, nontrivial=big or "score_vector" in cfg)
        if not out.ok:
            if out.etype == "ValueError" and tie is not None and cfg.get("tiebreak") is None:
                ctx.count("boundary_tie_valueerror")
            else:
                ctx.count("election_exception_left_to_C01")
            continue
        e = out.value
        ctx.count("elections_checked")
        if tie is not None and cfg.get("tiebreak") is None:
            ctx.fail(f"{cfg['rule']}: candidates of equal score straddle the last seat, no tiebreak was requested, and a result "
                     "was returned (equal scores cannot be reported as tied)", c2, {"tie": sorted(tie), "outcome": canon.outcome_c(e)})
            continue
        s0 = e.election_states[0]
        if dict(s0.scores) != sc:
            ctx.fail(f"{cfg['rule']}: round-0 scores differ from the definition", c2,
                     {"got": canon.scores_c(s0.scores), "exp": canon.scores_c(sc)})
            continue
        if [frozenset(g) for g in s0.remaining if g] != scoring.grouped(sc):
            ctx.fail(f"{cfg['rule']}: round-0 order is not descending score with equal scores tied", c2,
                     {"remaining": canon.groups(s0.remaining)})
            continue
        elg = [g for g in e.get_elected() if g]
        winners = [c for g in elg for c in g]
        if not scoring.topm_ok(sc, winners, m):
            ctx.fail(f"{cfg['rule']}: winners are not m candidates with no winner below a loser", c2,
                     {"winners": winners, "scores": canon.scores_c(sc), "m": m})
            continue
        # descending order; equal scores in one tied set unless broken by a recorded tiebreak
        gs = [max(sc[c] for c in g) for g in elg]
        if any(len({sc[c] for c in g}) > 1 for g in elg) or any(gs[i] < gs[i + 1] for i in range(len(gs) - 1)):
            ctx.fail(f"{cfg['rule']}: elected groups are not in non-increasing score order", c2, {"elected": canon.groups(elg)})
            continue
        tb = e.election_states[-1].tiebreaks
        for i in range(len(gs) - 1):
            if gs[i] == gs[i + 1]:
                members = elg[i] | elg[i + 1]
                if not any(members <= k for k in tb):
                    ctx.fail(f"{cfg['rule']}: candidates of equal score reported in different groups without a recorded tiebreak",
                             c2, {"elected": canon.groups(elg)})
                    break
        # equal scores are reported as tied: only the group cut by the m-th seat may be split (by the requested tiebreak)
        pos = {c: i for i, g in enumerate([g for g in e.get_ranking() if g]) for c in g}
        split = None
        for g in scoring.grouped(sc):
            if len({pos[c] for c in g}) > 1 and (tie is None or set(g) != set(tie)):
                split = sorted(g)
                break
        if split:
            ctx.fail(f"{cfg['rule']}: candidates of equal score that the last seat does not separate are not reported as tied", c2,
                     {"equal_score_group": split, "ranking": canon.groups(e.get_ranking()), "m": m})
            continue
        # full ranking: losers in non-increasing score order too
        rk = [g for g in e.get_ranking() if g]
        vals = [[sc[c] for c in g] for g in rk]
        flat = [max(v) for v in vals]
        if any(flat[i] < flat[i + 1] for i in range(len(flat) - 1)):
            ctx.fail(f"{cfg['rule']}: final ranking is not in descending score order", c2, {"ranking": canon.groups(rk)})
            continue
        # ... and only candidates of EQUAL score share a group (losers of different scores lumped together hide their order)
        mixed = [sorted(g) for g, v in zip(rk, vals) if len(set(v)) > 1]
        ctx.count("ranking_groups_checked_uniform", len(rk))
        if mixed:
            ctx.fail(f"{cfg['rule']}: candidates with different scores are reported as tied", c2,
                     {"group": mixed[0], "ranking": canon.groups(rk), "scores": canon.scores_c(sc)})


def run(ctx):
    maxn = 6 if ctx.quick else 8
    check_invalid_vectors(ctx)
    for i in range(ctx.n(16000, 300000)):
        if ctx.expired(0.45):
            break
        ctx.guard("check_score", check_score, ctx, gen_score_case(ctx.rnd, maxn))
    for i in range(ctx.n(800, 12000)):
        if ctx.expired(0.55):
            break
        rnd = ctx.rnd
        sizes = rnd.sample([2, 3, 4, 5, 6], 3)
        vec = sorted([rnd.choice([1, 2, 3, 5, 7, F(1, 2)]) for _ in range(rnd.randint(3, 7))], reverse=True)
        profs = [gen.ranked(rnd, n=k, ties=rnd.random() < 0.5, maxb=5) for k in sizes]
        ctx.guard("vector_reuse", check_vector_reuse, ctx, {"kind": "vector_reuse", "via": rnd.choice(["borda", "util"]),
                                                          "vector": [canon.fs(F(v)) for v in vec], "profiles": profs})
    for i in range(ctx.n(6000, 120000)):
        if ctx.expired():
            break
        rule = ctx.rnd.choice(["Plurality", "SNTV", "Borda", "Borda"])
        ctx.guard("check_election", check_election, ctx, cases.ranking_case(ctx.rnd, rule, maxn=maxn), 3 if ctx.quick else 12)


def replay(ctx, case):
    if case.get("kind") == "vector_reuse":
        check_vector_reuse(ctx, case)
    elif case.get("kind") == "score":
        check_score(ctx, case)
    elif "cfg" in case:
        check_election(ctx, case, 1)
    else:
        check_invalid_vectors(ctx)
