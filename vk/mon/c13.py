"""C13 — composite and alias rules equal the composition they are documented to be."""
from fractions import Fraction as F

from .. import canon, cases, rules, rng, oracle, gen
from ..ref import scoring

META = {
    "level": "exploration",
    "rule": ("cases = (alias or composite rule configuration, untied generated profile, RNG script): IRV vs STV(m=1); SNTV vs "
             "Plurality; SequentialRCV vs STV with the harness's own full-weight transfer; TopTwo vs the reference two-stage "
             "first-preference count; Alaska vs Plurality(m_1) followed by STV(m_2) on the harness-reduced profile with rounds "
             "renumbered. Both sides run under the same positional RNG script and are compared when they consumed the same "
             "choice points. distinct = hash(case, script); non-trivial = stage 1 removes >=1 candidate and stage 2 has >=2 "
             "rounds (composites) or >=3 rounds (aliases)."),
    "assumptions": ["random paths are compared only when both sides met the same sequence of choice points (same branching factors)"],
    "min_obs": {"all": {"irv_pairs": 150, "sntv_pairs": 150, "seqrcv_pairs": 150, "toptwo_checked": 150, "alaska_pairs": 100,
                        "pairs_with_randomness": 50, "irv_pairs_compared": 100, "sntv_pairs_compared": 100,
                        "seqrcv_pairs_compared": 80, "toptwo_compared": 100, "alaska_pairs_compared": 60,
                        "alaska_full_weight_transfer_pairs": 10, "default_argument_pairs_compared": 100}},
}


def run_scripted(cfg, prof, script, transfer_override=None):
    r = rng.Rng("script", script=script, policy="first")
    with r:
        out = rules.run(cfg, prof, transfer_override=transfer_override)[0]
    return out, r


def next_script(trace):
    nxt = list(trace)
    while nxt and nxt[-1][0] + 1 >= nxt[-1][1]:
        nxt.pop()
    if not nxt:
        return None
    return [d for d, _ in nxt[:-1]] + [nxt[-1][0] + 1]


def compare_alias(ctx, case, cfg_a, cfg_b, label, counter, tr_b=None):
    spec = case["profile"]
    prof = canon.build_profile(spec)
    script = case.get("script") or []
    for _ in range(case.get("max_runs", 3)):
        oa, ra = run_scripted(cfg_a, prof, script)
        ob, rb = run_scripted(cfg_b, prof, script, transfer_override=tr_b)
        c2 = dict(case)
        c2["script"] = script
        same_points = [n for _, n in ra.trace] == [n for _, n in rb.trace]
        ctx.count(counter)
        if ra.draws or rb.draws:
            ctx.count("pairs_with_randomness")
        nontriv = False
        if not same_points:
            ctx.count("different_choice_points_not_compared")
        elif (not oa.ok and oracle.classify(cfg_a, *canon.plain(spec), oa.etype) in ("mixed-ballot-ranking-exhausted",)) or \
                (not ob.ok and oracle.classify(cfg_b, *canon.plain(spec), ob.etype) in ("mixed-ballot-ranking-exhausted",)):
            # C01's known finding (a ranked ballot that outlives its ranking through its scores makes the rule raise TypeError);
            # whether it strikes depends on what the transfer rule does with the scores, so the two sides need not agree - the
            # exception is judged once, under C01
            ctx.count("c01_known_mechanism_not_compared")
        elif oa.ok != ob.ok or (not oa.ok and oa.etype != ob.etype):
            ctx.fail(f"{label}: one side raised, the other did not", c2, {"a": repr(oa)[:200], "b": repr(ob)[:200]})
        elif oa.ok:
            A, B = canon.outcome_c(oa.value), canon.outcome_c(ob.value)
            nontriv = len(A) >= 4
            ctx.count(counter + "_compared")
            if A != B:
                ctx.fail(f"{label}: rounds differ", c2, {"a": A, "b": B})
            elif hasattr(oa.value, "threshold") and oa.value.threshold != ob.value.threshold:
                ctx.fail(f"{label}: thresholds differ", c2, {})
        ctx.case({"k": label, "cfg": cfg_a, "profile": spec, "script": script}, nontrivial=nontriv)
        script = next_script(ra.trace)
        if script is None or case.get("script") is not None:
            break


def check_toptwo(ctx, case):
    spec = case["profile"]
    cands, ballots = canon.plain(spec)
    prof = canon.build_profile(spec)
    cfg = case["cfg"]
    script = case.get("script") or []
    for _ in range(case.get("max_runs", 3)):
        out, r = run_scripted(cfg, prof, script)
        c2 = dict(case)
        c2["script"] = script
        ctx.count("toptwo_checked")
        nontriv = False
        if out.ok:
            e = out.value
            st = e.election_states
            fp = scoring.first_place(cands, ballots)
            if len(st) != 3 or [s.round_number for s in st] != [0, 1, 2]:
                ctx.fail("TopTwo: rounds are not numbered 0,1,2", c2, {"rounds": [s.round_number for s in st]})
            else:
                ctx.count("toptwo_compared")
                adv = [c for g in st[1].remaining for c in g]
                drop = [c for g in st[1].eliminated for c in g]
                if len(adv) != min(2, len(cands)) or sorted(adv + drop) != sorted(cands) or (drop and min(fp[c] for c in adv) < max(fp[c] for c in drop)):
                    ctx.fail("TopTwo: stage 1 does not keep the two highest first-place candidates", c2,
                             {"advancing": adv, "fpv": canon.scores_c(fp)})
                else:
                    c2s = [c for c in cands if c in adv]
                    fp2 = scoring.first_place(c2s, oracle.restrict(ballots, set(adv)))
                    if dict(st[1].scores) != fp2:
                        ctx.fail("TopTwo: stage-1 tallies are not the first-place votes after deleting the other candidates", c2,
                                 {"got": canon.scores_c(st[1].scores), "exp": canon.scores_c(fp2)})
                    w = [c for g in e.get_elected() for c in g]
                    best = max(fp2.values())
                    top = [c for c in c2s if fp2[c] == best]
                    if len(w) != 1 or w[0] not in top:
                        ctx.fail("TopTwo: winner is not the head-to-head first-preference winner of the two finalists", c2,
                                 {"winner": w, "fpv2": canon.scores_c(fp2)})
                    elif len(top) > 1 and not st[2].tiebreaks:
                        ctx.fail("TopTwo: tied final decided without a recorded tiebreak", c2, {})
                    nontriv = len(drop) >= 1
        ctx.case({"k": "toptwo", "cfg": cfg, "profile": spec, "script": script}, nontrivial=nontriv)
        script = next_script(r.trace)
        if script is None or case.get("script") is not None:
            break


def check_alaska(ctx, case):
    from votekit import PreferenceProfile

    spec = case["profile"]
    cands, ballots = canon.plain(spec)
    prof = canon.build_profile(spec)
    cfg = case["cfg"]
    script = case.get("script") or []
    for _ in range(case.get("max_runs", 3)):
        fw = rules.full_weight_transfer if case.get("full_weight") else None
        oa, ra = run_scripted(cfg, prof, script, transfer_override=fw)
        c2 = dict(case)
        c2["script"] = script
        # composition under the same script: Plurality(m_1) then STV(m_2) on the harness-reduced profile
        rb = rng.Rng("script", script=script, policy="first")
        with rb:
            op = rules.run({"rule": "Plurality", "m": cfg["m_1"], "tiebreak": cfg.get("tiebreak")}, prof)[0]
            os_ = None
            if op.ok:
                keep = {c for g in op.value.get_elected() for c in g}
                red = oracle.restrict(ballots, keep)
                rspec = canon.spec_profile([c for c in cands if c in keep],
                                           [canon.spec_ballot(r=[list(g) for g in r_], w=w) for r_, w, _ in red])
                rprof = canon.build_profile(rspec)
                os_ = rules.run({"rule": "STV", "m": cfg["m_2"], "quota": cfg.get("quota", "droop"), "sim": cfg.get("sim", True),
                                 "transfer": cfg.get("transfer", "fractional"), "tiebreak": cfg.get("tiebreak")}, rprof,
                                transfer_override=fw)[0]
        ctx.count("alaska_pairs")
        if fw is not None and oa.ok:
            ctx.count("alaska_full_weight_transfer_pairs")
        if ra.draws:
            ctx.count("pairs_with_randomness")
        nb = [n for _, n in rb.trace]
        na = [n for _, n in ra.trace]
        nontriv = False
        if na[: len(nb)] != nb:
            ctx.count("different_choice_points_not_compared")
        elif not oa.ok:
            ctx.count("alaska_raised_skipped")  # C01 judges constructor exceptions
        elif not op.ok or os_ is None or not os_.ok:
            ctx.fail("Alaska returned a result but its composition raises", c2, {"plurality": repr(op)[:150], "stv": repr(os_)[:150]})
        else:
            A = canon.outcome_c(oa.value)
            ctx.count("alaska_pairs_compared")
            P1, S = op.value, os_.value
            exp = [canon.state_c(P1.election_states[0])]
            s1 = {"round": 1, "elected": [], "eliminated": canon.groups(P1.get_remaining()), "remaining": canon.groups(P1.get_elected()),
                  "scores": canon.scores_c(S.election_states[0].scores), "tiebreaks": canon.tiebreaks_c(P1.election_states[-1].tiebreaks)}
            exp.append(s1)
            for s in S.election_states[1:]:
                d = canon.state_c(s)
                d["round"] += 1
                exp.append(d)
            nontriv = len(s1["eliminated"]) >= 1 and len(S.election_states) >= 3
            if [a["round"] for a in A] != list(range(len(A))):
                ctx.fail("Alaska: rounds are not numbered consecutively", c2, {"rounds": [a["round"] for a in A]})
            elif A != exp:
                i = next((j for j in range(min(len(A), len(exp))) if A[j] != exp[j]), min(len(A), len(exp)))
                ctx.fail("Alaska differs from Plurality(m_1) followed by STV(m_2) on the reduced profile", c2,
                         {"first_difference_round": i, "alaska": A[i:i + 1], "composition": exp[i:i + 1], "len": [len(A), len(exp)]})
        ctx.case({"k": "alaska", "cfg": cfg, "profile": spec, "script": script}, nontrivial=nontriv)
        script = next_script(ra.trace)
        if script is None or case.get("script") is not None:
            break


def check_defaults(ctx, case):
    """the alias relations also hold for the constructors' DEFAULT arguments (quota, simultaneous, tiebreak, transfer): bare
    IRV(p) vs STV(p, m=1), SNTV(p, m) vs Plurality(p, m), SequentialRCV(p, m) vs STV(p, m, transfer=<full weight>)"""
    import votekit.elections as el
    from ..core import observe

    spec, m = case["profile"], case["m"]
    prof = canon.build_profile(spec)
    ctx.case(case, nontrivial=len(spec["cands"]) >= 3)
    pairs = [("IRV(p) vs STV(p, m=1)", lambda: el.IRV(prof), lambda: el.STV(prof, m=1)),
             (f"SNTV(p, {m}) vs Plurality(p, {m})", lambda: el.SNTV(prof, m=m), lambda: el.Plurality(prof, m=m)),
             (f"SequentialRCV(p, {m}) vs STV(p, {m}, transfer=full weight)", lambda: el.SequentialRCV(prof, m=m),
              lambda: el.STV(prof, m=m, transfer=rules.full_weight_transfer))]
    for label, fa, fb in pairs:
        ra = rng.Rng("script", script=[], policy="first")
        with ra:
            oa = observe(fa)
        rb = rng.Rng("script", script=[], policy="first")
        with rb:
            ob = observe(fb)
        ctx.count("default_argument_pairs")
        if [n for _, n in ra.trace] != [n for _, n in rb.trace]:
            ctx.count("different_choice_points_not_compared")
            continue
        if oa.ok != ob.ok or (not oa.ok and oa.etype != ob.etype):
            ctx.fail(f"{label} (default arguments): one side raised, the other did not", case, {"a": repr(oa)[:200], "b": repr(ob)[:200]})
            return
        if oa.ok:
            ctx.count("default_argument_pairs_compared")
            if canon.outcome_c(oa.value) != canon.outcome_c(ob.value):
                ctx.fail(f"{label} (default arguments): rounds differ", case,
                         {"a": canon.outcome_c(oa.value), "b": canon.outcome_c(ob.value)})
                return
            if hasattr(oa.value, "threshold") and oa.value.threshold != ob.value.threshold:
                ctx.fail(f"{label} (default arguments): thresholds differ", case, {})
                return


def check_case(ctx, case):
    if case.get("k") == "defaults":
        return check_defaults(ctx, case)
    k = case["k"]
    cfg = case["cfg"]
    if k == "irv":
        compare_alias(ctx, case, cfg, {"rule": "STV", "m": 1, "quota": cfg.get("quota", "droop"), "sim": True,
                                       "transfer": "fractional", "tiebreak": cfg.get("tiebreak")}, "IRV vs STV(m=1)", "irv_pairs")
    elif k == "sntv":
        compare_alias(ctx, case, cfg, dict(cfg, rule="Plurality"), "SNTV vs Plurality", "sntv_pairs")
    elif k == "seqrcv":
        compare_alias(ctx, case, cfg, dict(cfg, rule="STV", transfer="fractional"), "SequentialRCV vs STV(full-weight transfer)",
                      "seqrcv_pairs", tr_b=rules.full_weight_transfer)
    elif k == "toptwo":
        check_toptwo(ctx, case)
    elif k == "alaska":
        check_alaska(ctx, case)


def run(ctx):
    rnd = ctx.rnd
    maxn = 6 if ctx.quick else 7
    kinds = [("irv", "IRV"), ("sntv", "SNTV"), ("seqrcv", "SequentialRCV"), ("toptwo", "TopTwo"), ("alaska", "Alaska"), ("alaska", "Alaska")]
    for i in range(ctx.n(4200, 80000)):
        if ctx.expired():
            break
        k, rule = kinds[i % len(kinds)]
        c = cases.ranking_case(rnd, rule, maxn=maxn)
        if c["cfg"].get("transfer") == "random":
            c["cfg"]["transfer"] = "fractional"
        if i % 10 == 3 and k != "alaska":
            ctx.guard("check", check_case, ctx, {"k": "defaults", "profile": c["profile"],
                                                 "m": min(c["cfg"].get("m", 1), len(c["profile"]["cands"]))})
        cc = {"k": k, "cfg": c["cfg"], "profile": c["profile"], "max_runs": 3 if ctx.quick else 10}
        if k == "alaska" and i % 4 == 1:
            cc["full_weight"] = True  # the transfer option handed to Alaska must reach its STV stage
        ctx.guard("check", check_case, ctx, cc)
        # look-alike requests right afterwards in the same process: same ballots with another candidate list (an extra / a
        # dropped candidate nobody voted for, another listing order), or the same rankings with the weights permuted
        if i % 2 == 0:
            if rnd.random() < 0.6:
                sib = cases.sibling_candidates_changed(rnd, c["profile"], c["cfg"])
            else:
                sp = cases.sibling_weights_permuted(rnd, c["profile"])
                sib = (sp, c["cfg"]) if sp is not None else None
            if sib is not None:
                ctx.count("sibling_requests")
                ctx.guard("check", check_case, ctx, {"k": k, "cfg": sib[1], "profile": sib[0], "max_runs": 2 if ctx.quick else 5,
                                                    "prelude": {"k": k, "cfg": c["cfg"], "profile": c["profile"], "max_runs": 3}})


def replay(ctx, case):
    check_case(ctx, case)
