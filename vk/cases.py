"""Election cases: (rule configuration, valid profile) pairs shared by the election monitors."""
from fractions import Fraction as F

from . import gen, rules, canon


def score_case(rnd, rule, n=None):
    n = n or rnd.randint(1, 6)
    m = rnd.randint(1, n)
    cfg = {"rule": rule, "m": m, "tiebreak": rnd.choice([None, "random"])}
    cfg["numtype"] = rnd.choice(["int", "float", "fraction"])  # how the limits L / k are handed over (same number)
    if rule == "Rating":
        L = rnd.choice([1, 2, 3, 5, F(5, 2)])
        cfg["L"] = canon.fs(F(L))
        spec = gen.score_profile(rnd, n=n, L=L)
    elif rule == "Limited":
        k = rnd.randint(1, m)
        cfg["k"] = canon.fs(F(k))
        spec = gen.score_profile(rnd, n=n, L=k, k=k)
    elif rule == "Cumulative":
        spec = gen.score_profile(rnd, n=n, L=m, k=m)
    elif rule == "Approval":
        spec = gen.score_profile(rnd, n=n, approval=True)
    elif rule == "BlocPlurality":
        k = rnd.choice([None, rnd.randint(1, n)])
        if k is not None:
            cfg["k"] = k
        spec = gen.score_profile(rnd, n=n, approval=True, k=k if k is not None else m)
    else:
        raise KeyError(rule)
    if rnd.random() < 0.3:
        # engineer exact ties: duplicate pattern rotated across candidates with equal weights
        cs = spec["cands"]
        w = gen.weight(rnd, "int")
        spec = canon.spec_profile(cs, [canon.spec_ballot(w=w, s={c: 1}) for c in cs] +
                                  ([canon.spec_ballot(w=w, s={cs[0]: 1})] if rnd.random() < 0.5 else []))
    if rnd.random() < gen.MAGNIFY_P:
        spec = gen.magnify(rnd, spec)
        return {"cfg": cfg, "profile": spec, "tag": "magnified-score"}
    if rnd.random() < gen.DRESS_P:
        # the same scores in an unusual but valid shape: rankings next to the scores (score rules ignore them; ballots that share
        # a ranking and the scored candidates but not the score VALUES are different ballots), ids / voter sets, zero-weight
        # copies that respect every limit
        cs = spec["cands"]
        bl = [dict(b) for b in spec["ballots"]]
        shared = [[c] for c in rnd.sample(cs, rnd.randint(1, len(cs)))]
        for i, b in enumerate(bl):
            if b.get("s") and rnd.random() < 0.7:
                b["r"] = shared if rnd.random() < 0.6 else [[c] for c in rnd.sample(cs, rnd.randint(1, len(cs)))]
            if rnd.random() < 0.5:
                b["id"] = "voter-%d" % i
            if rnd.random() < 0.3:
                b["vs"] = ["v%d" % i]
        if bl and rnd.random() < 0.5:
            z = dict(rnd.choice(bl))
            z["w"] = "0"
            bl.insert(rnd.randrange(len(bl) + 1), z)
        return {"cfg": cfg, "profile": canon.spec_profile(cs, bl), "tag": "score+dressed"}
    return {"cfg": cfg, "profile": spec, "tag": "score"}


def ranking_case(rnd, rule, maxn=6):
    integer = rule == "PluralityVeto" or (rule in ("STV", "Alaska") and rnd.random() < 0.45)
    if maxn >= 6 and rnd.random() < gen.SCALE_P:
        # beyond hand size: 8..12 candidates, dozens of ballots, huge / tiny weights.  Integer profiles keep plain weights
        # (random transfer and PluralityVeto work voter by voter), pairwise rules get at most 3 unlisted candidates per
        # ballot (ballot_fill expands k! completions)
        spec, m = gen.scale(rnd, integer=integer, mode="plain" if integer else None,
                            maxmiss=3 if rule in rules.PAIRWISE else None)
        tag = "scale"
    elif rule in rules.UNTIED_ONLY:
        spec, m, tag = gen.any_ranked(rnd, integer=integer, maxn=maxn, scale_ok=False)
    else:
        if rnd.random() < 0.5:
            spec, m, tag = gen.any_ranked(rnd, integer=integer, maxn=maxn, scale_ok=False)
        else:
            spec = gen.ranked(rnd, ties=True, wkind="int" if integer else None, maxn=maxn)
            m, tag = rnd.randint(1, len(spec["cands"])), "tied"
    n = len(spec["cands"])
    if not integer and tag != "scale" and rnd.random() < gen.MAGNIFY_P:
        # the same hand-sized profile at a magnitude where doubles no longer separate neighbouring tallies
        spec, tag = gen.magnify(rnd, spec), "magnified-" + tag
    if rnd.random() < 0.5:
        m = rnd.randint(1, n)
    cfg = rules.random_cfg(rnd, rule, n, m=min(m, n), integer=integer)
    if rule == "PluralityVeto" and tag == "tied" and cfg.get("tiebreak") is None:
        cfg["tiebreak"] = rnd.choice(["random", "borda", "first_place"])
    if rule == "Borda" and rnd.random() < 0.4:
        L = rnd.randint(1, n + 2)
        vec = sorted([rnd.choice([0, 1, 2, 3, 5, F(1, 2), F(7, 3)]) for _ in range(L)], reverse=True)
        cfg["score_vector"] = [canon.fs(F(v)) for v in vec]
        # any sequence of numbers is a score vector: list / tuple, Fractions / floats (floats only where they are exact)
        cfg["sv_type"] = ["list", "tuple", "float"][int(canon.jhash(cfg["score_vector"])[:2], 16) % 3]
    if tag != "scale" and rnd.random() < gen.DRESS_P:
        # the same votes in an unusual but valid shape (zero-weight ballots, ids / voter sets, scores next to the rankings)
        spec, tag = gen.dress(rnd, spec), tag + "+dressed"
    return {"cfg": cfg, "profile": spec, "tag": tag}


def any_case(rnd, rule=None, maxn=6):
    rule = rule or rnd.choice(rules.ALL_RULES)
    if rule in rules.SCORE_RULES:
        return score_case(rnd, rule)
    return ranking_case(rnd, rule, maxn=maxn)


def directed_cases():
    """One directed case per known mechanism / minimum-observation counter, so that
    KNOWN-FINDING lines are deterministic and counters are never zero by chance."""
    B = lambda r, w=1: canon.spec_ballot(r=[[c] for c in r], w=w)  # noqa
    P = canon.spec_profile
    out = []
    # Hare over-quota: three candidates one vote each, m=2
    out.append({"cfg": {"rule": "STV", "m": 2, "quota": "hare", "sim": True, "transfer": "fractional", "tiebreak": "random"},
                "profile": P(["A", "B", "C"], [B("A"), B("B"), B("C")]), "tag": "dir-overquota"})
    out.append({"cfg": {"rule": "SequentialRCV", "m": 2, "quota": "droop", "sim": True, "tiebreak": "random"},
                "profile": P(["A", "B", "C", "D"], [B("ABC", 5), B("BCA", 2), B("CBA", 2), B("D", 1)]), "tag": "dir-overquota"})
    # Hare quota zero: N < m
    out.append({"cfg": {"rule": "STV", "m": 3, "quota": "hare", "sim": True, "transfer": "fractional", "tiebreak": None},
                "profile": P(["A", "B", "C"], [B("ABC", F(1, 2)), B("BCA", 1)]), "tag": "dir-zeroquota"})
    # random transfer short pile: winner's transferable ballots fewer than surplus
    out.append({"cfg": {"rule": "STV", "m": 2, "quota": "droop", "sim": True, "transfer": "random", "tiebreak": "random"},
                "profile": P(["A", "B", "C"], [B("A", 8), B("AB", 1), B("B", 2), B("C", 1)]), "tag": "dir-rt-short"})
    # dictators exhausted
    out.append({"cfg": {"rule": "RandomDictator", "m": 2}, "profile": P(["A", "B", "C"], [B("A", 2)]), "tag": "dir-dict-exh"})
    out.append({"cfg": {"rule": "BoostedRandomDictator", "m": 3}, "profile": P(["A", "B", "C", "D"], [B("A", 2), B("B", 1)]), "tag": "dir-dict-exh"})
    # BRD last candidate (fix #4)
    out.append({"cfg": {"rule": "BoostedRandomDictator", "m": 3}, "profile": P(["A", "B", "C"], [B("ABC", 2), B("BCA", 1), B("CAB", 1)]), "tag": "dir-brd-last"})
    # PluralityVeto starved
    out.append({"cfg": {"rule": "PluralityVeto", "m": 1, "tiebreak": None}, "profile": P(["A", "B", "C"], [B("A", 1)]), "tag": "dir-pv-starved"})
    out.append({"cfg": {"rule": "PluralityVeto", "m": 2, "tiebreak": None}, "profile": P(["A", "B", "C"], [B("ABC", 2), B("ACB", 1)]), "tag": "dir-pv-starved"})
    # PluralityVeto: score tiebreak on a working profile that contains an exhausted ballot
    out.append({"cfg": {"rule": "PluralityVeto", "m": 1, "tiebreak": "first_place"},
                "profile": P(["A", "B", "C"], [B("A", 1), canon.spec_ballot(r=[["C", "B"]], w=1)]), "tag": "dir-pv-tiebreak"})
    # a ranked ballot that also scores a candidate it does not rank: once its ranked candidates have left the count, the ballot
    # survives with its scores and no ranking (known finding mixed-ballot-ranking-exhausted)
    out.append({"cfg": {"rule": "IRV", "quota": "droop", "tiebreak": "random"},
                "profile": P(["A", "B", "C"], [canon.spec_ballot(r=[["A"]], w=2, s={"A": 1, "C": 1}), B("BC", 3), B("CB", 3)]),
                "tag": "dir-mixed-exhausted"})
    # TopTwo single candidate (repaired: must not fail any more)
    out.append({"cfg": {"rule": "TopTwo", "tiebreak": None}, "profile": P(["A"], [B("A", 3)]), "tag": "dir-toptwo-single"})
    # Alaska whose STV stage needs a random elimination tie-break (replay re-draw)
    out.append({"cfg": {"rule": "Alaska", "m_1": 4, "m_2": 1, "quota": "droop", "sim": True, "transfer": "fractional", "tiebreak": "random"},
                "profile": P(["A", "B", "C", "D"], [B("ABCD", 4), B("BADC", 2), B("CDAB", 2), B("DCBA", 2)]), "tag": "dir-replay"})
    # boundary ties for single round rules
    out.append({"cfg": {"rule": "Plurality", "m": 1, "tiebreak": None}, "profile": P(["A", "B"], [B("A"), B("B")]), "tag": "dir-tie"})
    out.append({"cfg": {"rule": "Plurality", "m": 1, "tiebreak": "random"}, "profile": P(["A", "B"], [B("A"), B("B")]), "tag": "dir-tie"})
    out.append({"cfg": {"rule": "Approval", "m": 1, "tiebreak": None},
                "profile": P(["A", "B"], [canon.spec_ballot(s={"A": 1}), canon.spec_ballot(s={"B": 1})]), "tag": "dir-tie"})
    # one-by-one STV with a tie for first above quota
    out.append({"cfg": {"rule": "STV", "m": 2, "quota": "droop", "sim": False, "transfer": "fractional", "tiebreak": None},
                "profile": P(["A", "B", "C"], [B("AC", 4), B("BC", 4), B("C", 1)]), "tag": "dir-1by1-tie"})
    return out


def sibling_weights_permuted(rnd, spec):
    """same candidates, same rankings in the same order, same total weight - the weights are permuted among the ballots.
    Run right after the original in the same process, it exposes results remembered from a look-alike profile."""
    ws = [b["w"] for b in spec["ballots"]]
    if len(set(ws)) < 2:
        return None
    for _ in range(5):
        p = list(ws)
        rnd.shuffle(p)
        if p != ws:
            break
    else:
        return None
    gen._slice("slice_sibling_weights_permuted")
    return {"cands": list(spec["cands"]), "ballots": [dict(b, w=w) for b, w in zip(spec["ballots"], p)]}


def sibling_candidates_changed(rnd, spec, cfg):
    """same ballots, in the same order with the same weights; only the candidate LIST differs: a candidate nobody voted
    for is added (or, if there is one, dropped), or the list is reordered.  Returns (spec, cfg) with seat numbers clamped."""
    cs = list(spec["cands"])
    voted = {c for b in spec["ballots"] for g in (b.get("r") or []) for c in g} | {c for b in spec["ballots"] for c in (b.get("s") or {})}
    unvoted = [c for c in cs if c not in voted]
    t = rnd.random()
    if unvoted and t < 0.4 and len(cs) > 1:
        cs.remove(rnd.choice(unvoted))
    elif t < 0.8:
        new = next(x for x in ("Zed", "Zed2", "nobody") if x not in cs)
        cs.insert(rnd.randrange(len(cs) + 1), new)
    else:
        if len(cs) < 2:
            return None
        cs = cs[1:] + cs[:1]
    n = len(cs)
    cfg2 = dict(cfg)
    for k in ("m", "m_1"):
        if k in cfg2 and isinstance(cfg2[k], int):
            cfg2[k] = max(1, min(cfg2[k], n))
    if "m_2" in cfg2:
        cfg2["m_2"] = max(1, min(cfg2["m_2"], cfg2.get("m_1", n)))
    gen._slice("slice_sibling_candidate_lists")
    return {"cands": cs, "ballots": [dict(b) for b in spec["ballots"]]}, cfg2
