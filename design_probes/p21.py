import sys, random, itertools, math, collections
sys.path[:0] = ['/repo/src', __import__('os').path.join(__import__('os').path.dirname(__import__('os').path.abspath(__file__)) if '__file__' in globals() else '.', 'shim')]
from fractions import Fraction as F
from votekit import Ballot, PreferenceProfile
from votekit.elections import fractional_transfer, random_transfer
rnd=random.Random(5)
bad=collections.Counter()
for it in range(3000):
    c=list('ABCDE')[:rnd.randint(2,5)]; w=c[0]
    integer = rnd.random()<0.5
    bl=[]
    for _ in range(rnd.randint(1,7)):
        if rnd.random()<0.7: r=[w]+rnd.sample(c[1:], rnd.randint(0,len(c)-1))
        else: r=rnd.sample(c, rnd.randint(1,len(c)))
        wt=F(rnd.randint(1,4)) if integer else rnd.choice([F(1),F(1,2),F(7,3),F(2)])
        bl.append(Ballot(ranking=tuple(frozenset([x]) for x in r), weight=wt, id='x' if rnd.random()<0.2 else None))
    tally=sum(b.weight for b in bl if b.ranking[0]=={w})
    if tally<1: continue
    T=rnd.randint(1,int(tally))
    # fractional
    out=fractional_transfer(w,tally,bl,T)
    exp=collections.defaultdict(F)
    for b in bl:
        r2=tuple(s for s in b.ranking if s!=frozenset([w]))
        wt=b.weight*(tally-T)/tally if b.ranking[0]=={w} else b.weight
        if r2 and wt>0: exp[r2]+=wt
    got=collections.defaultdict(F)
    for b in out: got[b.ranking]+=b.weight
    if dict(got)!=dict(exp): bad['frac']+=1
    if len(set(b.ranking for b in out))!=len(out): bad['frac not condensed']+=1
    if integer:
        transferable=sum(b.weight for b in bl if b.ranking[0]=={w} and len(b.ranking)>1)
        try:
            out=random_transfer(w,tally,bl,T)
        except ValueError as e:
            bad['rt ValueError' + (' (short)' if transferable<tally-T else ' (UNEXPECTED)')]+=1; continue
        got=collections.defaultdict(F)
        for b in out: got[b.ranking]+=b.weight
        other=collections.defaultdict(F); win=collections.defaultdict(F)
        for b in bl:
            r2=tuple(s for s in b.ranking if s!=frozenset([w]))
            if not r2: continue
            (win if b.ranking[0]=={w} else other)[r2]+=b.weight
        diff={r:got[r]-other.get(r,0) for r in set(got)|set(other)}
        if any(v<0 for v in diff.values()): bad['rt lost other']+=1
        if any(v>win.get(r,0) for r,v in diff.items()): bad['rt created']+=1
        if sum(diff.values())!=tally-T: bad['rt size']+=1
        bad['rt ok']+=1
print(bad)
