import sys, math, random, warnings
sys.path[:0] = ['/repo/src', __import__('os').path.join(__import__('os').path.dirname(__import__('os').path.abspath(__file__)) if '__file__' in globals() else '.', 'shim')]
import apportionment.methods as ap
import inspect
rnd=random.Random(4)
def valid_hh(v, a, N, tol=1e-9):
    if sum(a)!=N: return False
    d=lambda k: math.sqrt(k*(k+1))
    def pr(vi,k):  # priority for receiving seat number k+1 given k seats
        if vi==0: return 0.0
        return math.inf if k==0 else vi/d(k)
    nxt=max(pr(v[i],a[i]) for i in range(len(v)))
    lst=min((pr(v[i],a[i]-1) for i in range(len(v)) if a[i]>0), default=math.inf)
    return nxt<=lst*(1+tol) or (math.isinf(nxt) and math.isinf(lst))
bad=0
import io, contextlib
for it in range(3000):
    k=rnd.randint(1,6)
    raw=[rnd.choice([0,0.05,0.1,0.2,0.25,0.3,0.5,1,rnd.random()]) for _ in range(k)]
    if sum(raw)==0: continue
    v=[x/sum(raw) for x in raw]
    N=rnd.choice([1,2,3,5,7,10,50,101,1000])
    try:
        with contextlib.redirect_stdout(io.StringIO()):
            a=ap.compute("huntington", v, N)
    except BaseException as e:
        bad+=1; print('EXC',v,N,type(e).__name__,e); continue
    if not valid_hh(v,a,N):
        bad+=1; print('INVALID',v,N,a)
print('bad',bad)
print(inspect.signature(ap.compute))
