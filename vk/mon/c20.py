"""C20 — invalid requests are rejected up front with the documented error."""
import copy
from fractions import Fraction as F

from .. import canon, gen, rules, bgparams as bp
from ..core import observe

META = {
    "level": "exploration",
    "rule": ("cases = rows of a (precondition, callable, violating-input generator, expected exception) table: for each documented "
             "precondition inputs violating exactly that precondition by the smallest margin and grossly while satisfying the "
             "others, the offending ballot at every position of the tuple, and the matching boundary-valid inputs which must be "
             "accepted (m=n, sums within 1e-12 of 1, L=k, ...). distinct = hash(case); non-trivial = a rejection case whose "
             "boundary-valid twin was accepted in the same run."),
    "assumptions": ["pydantic's ValidationError counts as ValueError (it is a subclass)",
                    "a mismatch inside one bloc's cohesion dictionary is logged, not judged (no documentation promises a check there)"],
    "min_obs": {"all": {"rejections_checked": 800, "acceptances_checked": 300, "rows_missing_ranking": 100, "rows_tied_stv": 50,
                        "rows_seat_count": 200, "rows_score_vector": 40, "rows_rating_limits": 60, "rows_generator_sums": 60,
                        "rows_bloc_names": 30, "rows_random_transfer": 30}},
}


def B(r=None, w=1, s=None):
    return canon.spec_ballot(r=None if r is None else [[c] if isinstance(c, str) else list(c) for c in r], w=w, s=s)


def full_profile(rnd, n=None):
    """complete untied ballots, every candidate with first-place votes: valid for every ranking rule and any m"""
    n = n or rnd.randint(2, 5)
    cs = gen.cands(rnd, n)
    bl = [B(gen.rot(cs, i), (n - i) * 2 + 1) for i in range(n)]
    bl += [B(rnd.sample(cs, n), rnd.randint(1, 3)) for _ in range(rnd.randint(0, 3))]
    return canon.spec_profile(cs, bl)


def score_prof(rnd, n=None):
    n = n or rnd.randint(2, 5)
    cs = gen.cands(rnd, n)
    bl = [B(None, i + 1, {cs[i]: 1}) for i in range(n)]
    return canon.spec_profile(cs, bl)


ROWS = []  # rows of the current repetition, for the second pass


def expect(ctx, case, fn, exc, row, second=False):
    """exc: exception class the call must raise, or None when the call must be accepted"""
    if not second:
        ROWS.append((case, fn, exc, row))
    else:
        case = dict(case, what=case["what"] + "  [asked again after the other requests of this repetition, same objects]")
        ctx.count("second_pass_rows")
    o = observe(fn)
    ctx.count("rows_" + row)
    ctx.case(case, nontrivial=exc is not None)
    if exc is None:
        ctx.count("acceptances_checked")
        if not o.ok and not isinstance(o.exc, (ValueError, TypeError)):
            ctx.count("accept_case_other_exception_left_to_C01")  # e.g. Alaska's replay KeyError (C01 known finding)
        elif not o.ok:
            ctx.fail(f"[{row}] boundary-valid request rejected with {o.etype}: {case['what']}", case, {"msg": str(o.exc)[:200]})
        return
    ctx.count("rejections_checked")
    if o.ok:
        ctx.fail(f"[{row}] invalid request accepted: {case['what']}", case, {"result": repr(o.value)[:120]},
                 mech=case.get("mech"))
    elif not isinstance(o.exc, exc):
        ctx.fail(f"[{row}] invalid request rejected with {o.etype} instead of {exc.__name__}: {case['what']}", case,
                 {"msg": str(o.exc)[:200]}, mech=case.get("mech"))


def with_bad_ballot(spec, bad, pos):
    s = {"cands": list(spec["cands"]), "ballots": list(spec["ballots"])}
    s["ballots"].insert(pos % (len(s["ballots"]) + 1), bad)
    return s


RANK_CFG = {
    "STV": {"m": 1, "quota": "droop", "sim": True, "transfer": "fractional"}, "IRV": {}, "SequentialRCV": {"m": 1},
    "Plurality": {"m": 1}, "SNTV": {"m": 1}, "Borda": {"m": 1}, "TopTwo": {}, "Alaska": {"m_1": 2, "m_2": 1},
    "DominatingSets": {}, "CondoBorda": {"m": 1}, "RandomDictator": {"m": 1}, "BoostedRandomDictator": {"m": 1},
    "PluralityVeto": {"m": 1},
}


def mk(rule, spec, **over):
    cfg = dict(RANK_CFG.get(rule, {"m": 1}))
    cfg.update(over)
    cfg["rule"] = rule
    cfg.setdefault("tiebreak", "random")
    if rule in ("DominatingSets", "CondoBorda", "RandomDictator", "BoostedRandomDictator"):
        cfg.pop("tiebreak", None)
    prof = canon.build_profile(spec)
    return cfg, rules.constructor(cfg, prof)


def run(ctx):
    rnd = ctx.rnd
    import votekit.elections as el
    import votekit.utils as U
    import votekit.ballot_generator as bg
    from votekit import PreferenceProfile, Ballot
    from votekit.pref_interval import PreferenceInterval as PI, combine_preference_intervals as comb

    reps = ctx.n(48, 640)
    for rep in range(reps):
        if ctx.expired():
            break
        if ROWS:
            second_pass(ctx, rnd)
        spec = full_profile(rnd)
        n = len(spec["cands"])
        cs = spec["cands"]
        pos = rnd.randrange(10)
        # ---- 1. ranking rules: a ballot without ranking -> TypeError (offending ballot at any position)
        for rule in rules.RANKING_RULES:
            bad = rnd.choice([B(None, 1, {cs[0]: 1}), {"r": None, "w": "1"}])
            s2 = with_bad_ballot(spec, bad, pos)
            cfg, fn = mk(rule, s2)
            expect(ctx, {"what": f"{rule}: ballot without ranking at position {pos}", "cfg": cfg, "profile": s2}, fn, TypeError, "missing_ranking")
        cfgv, fnv = mk(rnd.choice(rules.RANKING_RULES), spec)
        expect(ctx, {"what": f"{cfgv['rule']}: all ballots ranked", "cfg": cfgv, "profile": spec}, fnv, None, "missing_ranking")
        # ---- 2. STV family: a tied position -> TypeError
        for rule in rules.STV_FAMILY:
            # the tied pair stands first, in the middle or last on an otherwise complete ballot
            order = rnd.sample(cs, n)
            tp = rnd.randrange(n - 1)
            tied = B(order[:tp] + [tuple(order[tp:tp + 2])] + order[tp + 2:], 1)
            ctx.count("tied_pair_not_first" if tp > 0 else "tied_pair_first")
            s2 = with_bad_ballot(spec, tied, pos)
            cfg, fn = mk(rule, s2)
            expect(ctx, {"what": f"{rule}: tied position at ballot {pos}", "cfg": cfg, "profile": s2}, fn, TypeError, "tied_stv")
        # ---- 3. PluralityVeto / random_transfer: non-integer weights -> TypeError
        for wbad in (F(3, 2), F(1000001, 1000000), 0.5):
            s2 = with_bad_ballot(spec, B(rnd.sample(cs, n), wbad), pos)
            cfg, fn = mk("PluralityVeto", s2)
            expect(ctx, {"what": f"PluralityVeto: weight {wbad}", "cfg": cfg, "profile": s2}, fn, TypeError, "integer_weights")
            bl = [canon.build_ballot(b) for b in s2["ballots"] if b.get("r")]
            w = cs[0]
            expect(ctx, {"what": f"random_transfer: weight {wbad}", "profile": s2},
                   lambda bl=bl, w=w: el.random_transfer(w, 5, bl, 1), TypeError, "random_transfer")
        # ... the same refusals at magnitudes where a relative tolerance would swallow the fractional part (the offending ballot
        # is never led by the winner: a count that wrongly accepts it must not try to expand 10^9 votes one by one)
        for wbad in (F(10 ** 9) + F(1, 2), F(2 ** 53) + F(1, 2), F(10 ** 12) + F(1, 3), 1 + F(1, 10 ** 12), 5 + F(1, 10 ** 9),
                     F(10 ** 6) + F(1, 10 ** 6)):
            others = [c for c in cs if c != cs[0]]
            s2 = with_bad_ballot(spec, B(rnd.sample(others, len(others)) + [cs[0]], wbad), pos)
            bl = [canon.build_ballot(b) for b in s2["ballots"] if b.get("r")]
            expect(ctx, {"what": f"random_transfer: weight {wbad} (almost an integer / huge)", "profile": s2},
                   lambda bl=bl, w=cs[0]: el.random_transfer(w, 5, bl, 1), TypeError, "random_transfer")
            if wbad < 100:
                cfg, fn = mk("PluralityVeto", s2)
                expect(ctx, {"what": f"PluralityVeto: weight {wbad} (almost an integer)", "cfg": cfg, "profile": s2}, fn, TypeError,
                       "integer_weights")
        # ... a fractional weight on a ballot that ALSO has a tied position, with every tiebreak option: the ballot is refused
        # whichever of its two problems is looked at first (TypeError for the weight; without a tiebreak the tie itself may be
        # reported instead, with the exception the rule documents for it)
        for wbad in (F(5, 2), F(7, 3), 2.5):
            for tb in ("random", "borda", "first_place"):
                tied_r = [tuple(cs[:2])] + list(cs[2:]) if rnd.random() < 0.5 else list(cs[:-2]) + [tuple(cs[-2:])]
                s2 = with_bad_ballot(spec, B(tied_r, wbad), pos)
                cfg, fn = mk("PluralityVeto", s2, tiebreak=tb)
                expect(ctx, {"what": f"PluralityVeto(tiebreak={tb}): weight {wbad} on a ballot with a tied position", "cfg": cfg, "profile": s2},
                       fn, TypeError, "integer_weights")
        bl = [canon.build_ballot(b) for b in spec["ballots"]]
        lead = sum(b.weight for b in bl if b.ranking[0] == frozenset([cs[0]]))
        expect(ctx, {"what": "random_transfer: integer weights", "profile": spec},
               lambda: el.random_transfer(cs[0], lead, bl, int(lead) - 1 if lead > 1 else 1), None, "random_transfer")
        # ---- 4. score rules: missing scores -> TypeError
        sp = score_prof(rnd)
        for rule in rules.SCORE_RULES + ["GeneralRating"]:
            bad = rnd.choice([B([sp["cands"][0]], 1), {"r": None, "w": "1"}, B(None, 1, {sp["cands"][0]: 0})])
            s2 = with_bad_ballot(sp, bad, pos)
            prof = canon.build_profile(s2)
            expect(ctx, {"what": f"{rule}: ballot without scores at position {pos}", "rule": rule, "profile": s2},
                   lambda rule=rule, prof=prof: getattr(el, rule)(prof, m=1, tiebreak="random"), TypeError, "missing_scores")
        # ---- 4b. ONE profile object through rules of both kinds: rules that have no objection to it see it first (their
        # answers are not judged here), then every rule that must refuse it - an acceptance by one rule must not carry over
        # to another rule (validation results remembered per profile object)
        def shared(what, s2, must_reject, exc, row):
            prof1 = canon.build_profile(s2)
            fns = {}
            for rule in rules.RANKING_RULES:
                c1 = dict(RANK_CFG.get(rule, {"m": 1}), rule=rule)
                c1.setdefault("tiebreak", "random")
                if rule in ("DominatingSets", "CondoBorda", "RandomDictator", "BoostedRandomDictator"):
                    c1.pop("tiebreak", None)
                fns[rule] = rules.constructor(c1, prof1)
            for rule in rules.SCORE_RULES:
                fns[rule] = (lambda rule=rule: getattr(el, rule)(prof1, m=1, tiebreak="random"))
            order = [r for r in fns if r not in must_reject]
            rnd.shuffle(order)
            for rule in order[:rnd.randint(1, 4)]:
                observe(fns[rule])
                ctx.count("shared_object_warm_calls")
            for rule in must_reject:
                expect(ctx, {"what": f"{rule}: {what} (profile object already seen by other rules)", "rule": rule, "profile": s2},
                       fns[rule], exc, row)

        both = canon.spec_profile(cs, [B(rnd.sample(cs, n), i + 1, {cs[i % n]: 1}) for i in range(n)])
        shared("tied position", with_bad_ballot(both, B([tuple(cs[:2])] + ([cs[2]] if n > 2 else []), 1, {cs[0]: 1}), pos),
               list(rules.STV_FAMILY), TypeError, "tied_stv")
        shared("ballot without ranking", with_bad_ballot(both, B(None, 1, {cs[0]: 1}), pos), list(rules.RANKING_RULES), TypeError,
               "missing_ranking")
        shared("ballot without scores", with_bad_ballot(both, B(rnd.sample(cs, n), 1), pos), list(rules.SCORE_RULES), TypeError,
               "missing_scores")
        shared("non-integer weight", with_bad_ballot(both, B(rnd.sample(cs, n), F(3, 2), {cs[0]: 1}), pos), ["PluralityVeto"], TypeError,
               "integer_weights")
        # ---- 5. seat count outside 1..n -> ValueError ; m = n and m = 1 accepted
        for rule in ["STV", "SequentialRCV", "Plurality", "SNTV", "Borda", "CondoBorda", "RandomDictator", "BoostedRandomDictator",
                     "PluralityVeto"]:
            for m, ok in ((0, False), (-1, False), (n + 1, False), (n + 5, False), (n, True), (1, True)):
                cfg, fn = mk(rule, spec, m=m)
                expect(ctx, {"what": f"{rule}: m={m} with {n} candidates", "cfg": cfg, "profile": spec}, fn,
                       None if ok else ValueError, "seat_count")
        # the bound is the number of LISTED candidates: a candidate nobody voted for still counts
        spec_u = canon.spec_profile(list(cs) + ["unvoted"], list(spec["ballots"]))
        for rule in ["STV", "Plurality", "SNTV", "Borda", "CondoBorda"]:
            for m, ok in ((n + 1, True), (n + 2, False)):
                cfg, fn = mk(rule, spec_u, m=m)
                expect(ctx, {"what": f"{rule}: m={m} with {n + 1} listed candidates, one of them on no ballot", "cfg": cfg, "profile": spec_u}, fn,
                       None if ok else ValueError, "seat_count")
        nsp = len(sp["cands"])
        prof_s = canon.build_profile(sp)
        for rule in rules.SCORE_RULES:
            for m, ok in ((0, False), (-2, False), (nsp + 1, False), (nsp, True), (1, True)):
                kw = {"m": m, "tiebreak": "random"}
                expect(ctx, {"what": f"{rule}: m={m} with {nsp} candidates", "rule": rule, "profile": sp, "m": m},
                       lambda rule=rule, kw=kw: getattr(el, rule)(prof_s, **kw), None if ok else ValueError, "seat_count")
        # ---- 6. Alaska stage sizes
        prof_r = canon.build_profile(spec)
        for m1, m2, ok in ((1, 2, False), (0, 1, False), (2, 0, False), (n + 1, 1, False), (n, n, True), (n, 1, True), (1, 1, True),
                           (2, 2, True)):
            if m1 > n and ok:
                continue
            expect(ctx, {"what": f"Alaska: m_1={m1}, m_2={m2}, n={n}", "profile": spec, "m_1": m1, "m_2": m2},
                   lambda m1=m1, m2=m2: el.Alaska(prof_r, m_1=m1, m_2=m2, tiebreak="random"), None if ok else ValueError, "alaska_stages")
        # ---- 7. score vectors
        for vec, ok in (([3, 2, -1], False), ([1, 2, 0], False), ([2, 1, F(1000001, 1000000)], False), ([0, 0, F(1, 10 ** 6)], False),
                        ([-F(1, 10 ** 6)], False), ([2, 2, 0], True), ([0, 0, 0], True), ([5], True), ([3.5, 1.5, 1.5], True)):
            case = {"what": f"score vector {vec}", "vector": [canon.fs(v) for v in vec], "profile": spec}
            expect(ctx, case, lambda vec=vec: U.validate_score_vector(vec), None if ok else ValueError, "score_vector")
            expect(ctx, dict(case, what=f"Borda score_vector {vec}"),
                   lambda vec=vec: el.Borda(prof_r, m=1, score_vector=vec, tiebreak="random"), None if ok else ValueError, "score_vector")
            expect(ctx, dict(case, what=f"score_profile_from_rankings {vec}"),
                   lambda vec=vec: U.score_profile_from_rankings(prof_r, vec), None if ok else ValueError, "score_vector")
        # ---- 8. rating limits and budgets
        for L, k, ok, mech in ((0, None, False, None), (-1, None, False, None), (F(-1, 10 ** 6), None, False, None),
                               (1, 0, False, None), (1, -1, False, None), (2, 1, False, None),
                               (F(1000001, 1000000), 1, False, None), (2, 2, True, None), (1, 5, True, None), (3, None, True, None), (1, 1, True, None)):
            expect(ctx, {"what": f"GeneralRating: L={L}, k={k}", "profile": sp, "L": canon.fs(F(L)), "k": None if k is None else canon.fs(F(k)),
                         "mech": mech},
                   lambda L=L, k=k: el.GeneralRating(prof_s, m=1, L=L, k=k, tiebreak="random"), None if ok else ValueError, "rating_limits")
        for L, ok in ((0, False), (-3, False), (1, True), (3, True)):
            expect(ctx, {"what": f"Rating: L={L}", "profile": sp}, lambda L=L: el.Rating(prof_s, m=1, L=L, tiebreak="random"),
                   None if ok else ValueError, "rating_limits")
        for m, k, ok in ((1, 2, False), (2, 3, False), (2, 0, False), (2, -1, False), (2, 2, True), (2, 1, True)):
            if m > nsp:
                continue
            expect(ctx, {"what": f"Limited: m={m}, k={k}", "profile": sp}, lambda m=m, k=k: el.Limited(prof_s, m=m, k=k, tiebreak="random"),
                   None if ok else ValueError, "rating_limits")
        for k, ok in ((0, False), (-1, False), (1, True), (None, True)):
            expect(ctx, {"what": f"BlocPlurality: k={k}", "profile": sp}, lambda k=k: el.BlocPlurality(prof_s, m=1, k=k, tiebreak="random"),
                   None if ok else ValueError, "rating_limits")
        # ---- 9. unknown quota
        for q, ok in (("drop", False), ("Droop", False), ("", False), ("droop", True), ("hare", True)):
            for rule in ("STV", "IRV", "SequentialRCV", "Alaska"):
                over = {"quota": q}
                cfg, fn = mk(rule, spec, **over)
                expect(ctx, {"what": f"{rule}: quota={q!r}", "cfg": cfg, "profile": spec}, fn, None if ok else ValueError, "quota")
        # ---- 10. generators: sums, bloc names, overlaps; profile duplicates
        p = bp.gen_params(rnd, nblocs=2, max_slate=2, zero_support=False, extremes=False)
        names = list(p["bloc_voter_prop"])
        model = rnd.choice(["name_PlackettLuce", "name_BradleyTerry", "slate_PlackettLuce", "slate_BradleyTerry", "AlternatingCrossover",
                            "CambridgeSampler", "name_Cumulative"])
        extra = {"num_votes": 2} if model == "name_Cumulative" else {}
        for d, ok in ((1e-6, False), (-1e-6, False), (0.1, False), (1e-12, True), (0.0, True)):
            q = copy.deepcopy(p)
            q["bloc_voter_prop"][names[0]] += d
            expect(ctx, {"what": f"{model}: bloc proportions sum to 1{d:+g}", "model": model, "params": q},
                   lambda q=q: bp.make(model, q, extra), None if ok else ValueError, "generator_sums")
            q = copy.deepcopy(p)
            q["cohesion_parameters"][names[1]][names[0]] += d
            expect(ctx, {"what": f"{model}: cohesion of one bloc sums to 1{d:+g}", "model": model, "params": q},
                   lambda q=q: bp.make(model, q, extra), None if ok else ValueError, "generator_sums")
        for field in ("bloc_voter_prop", "pref_intervals_by_bloc", "cohesion_parameters"):
            q = copy.deepcopy(p)
            q[field]["Zother"] = q[field].pop(names[0])
            expect(ctx, {"what": f"{model}: bloc names of {field} differ from the others", "model": model, "params": q},
                   lambda q=q: bp.make(model, q, extra), ValueError, "bloc_names")
        # one-sided mismatches: a bloc missing from, or extra in, one or two of the three dictionaries
        fields = ("bloc_voter_prop", "pref_intervals_by_bloc", "cohesion_parameters")
        variants = [("drop", (f,)) for f in fields] + [("add", (f,)) for f in fields] + \
                   [("add", (fields[1], fields[2])), ("add", (fields[0], fields[1])), ("drop", (fields[1], fields[2]))]
        for op, fs in variants:
            q = copy.deepcopy(p)
            for f in fs:
                if op == "drop":
                    q[f].pop(names[0])
                    if f == "bloc_voter_prop":
                        q[f][names[1]] = 1.0
                else:
                    q[f]["Zextra"] = 0.0 if f == "bloc_voter_prop" else copy.deepcopy(q[f][names[0]])
            expect(ctx, {"what": f"{model}: bloc {'missing from' if op == 'drop' else 'extra in'} {'+'.join(fs)} only", "model": model,
                         "params": q}, lambda q=q: bp.make(model, q, extra), ValueError, "bloc_names")
        s2c = {b: list(c) for b, c in p["slate_to_candidates"].items()}
        s2c["Zother"] = s2c.pop(names[0])
        expect(ctx, {"what": f"{model}.from_params: slate names differ from bloc names", "model": model},
               lambda: getattr(bg, model).from_params(slate_to_candidates=s2c, bloc_voter_prop=dict(p["bloc_voter_prop"]),
                                                      cohesion_parameters=copy.deepcopy(p["cohesion_parameters"]),
                                                      alphas={b: {c: 1 for c in names} for b in names}, **extra), ValueError, "bloc_names")
        expect(ctx, {"what": "combine_preference_intervals: overlapping candidate sets"},
               lambda: comb([PI({"A": 1, "B": 1}), PI({"B": 1, "C": 2})], [0.5, 0.5]), ValueError, "interval_overlap")
        # overlaps where the shared candidate has zero support on one or both sides are overlaps too
        for sa, sb in ((0, 1), (1, 0), (0, 0), (rnd.choice([0.5, 2]), rnd.choice([0.5, 2]))):
            ia = {"A": 2, "B": 3, "D": sa}
            ib = {"D": sb, "E": 1}
            expect(ctx, {"what": f"combine_preference_intervals: shared candidate D with supports {sa} and {sb}"},
                   lambda ia=ia, ib=ib: comb([PI(dict(ia)), PI(dict(ib))], [0.5, 0.5]), ValueError, "interval_overlap")
            q = copy.deepcopy(p)
            b0, b1 = names[0], names[1]
            shared = q["slate_to_candidates"][b1][0]
            q["pref_intervals_by_bloc"][b0][b0][shared] = sa  # bloc b0's interval for its own slate also lists a b1 candidate
            q["pref_intervals_by_bloc"][b0][b1][shared] = sb if len(q["pref_intervals_by_bloc"][b0][b1]) > 1 or sb else 1
            mdl = rnd.choice(["name_PlackettLuce", "name_BradleyTerry", "name_Cumulative"])
            ex2 = {"num_votes": 2} if mdl == "name_Cumulative" else {}
            if q["pref_intervals_by_bloc"][b0][b1][shared] == sb:
                expect(ctx, {"what": f"{mdl}: a bloc's intervals overlap in {shared} (supports {sa}, {sb})", "model": mdl, "params": q},
                       lambda q=q, mdl=mdl, ex2=ex2: bp.make(mdl, q, ex2), ValueError, "interval_overlap")
        # three to five intervals: the overlapping pair may be ANY two of them (also two that do not include the first), the
        # shared candidate with or without support; the same lists without the shared candidate are accepted
        k = rnd.randint(3, 5)
        ivs = [{f"c{j}_{t}": rnd.choice([1, 2, 0.5]) for t in range(rnd.randint(1, 2))} for j in range(k)]
        a, b_ = sorted(rnd.sample(range(k), 2))
        if rnd.random() < 0.6:
            a, b_ = sorted(rnd.sample(range(1, k), 2))
        props_k = [1.0 / k] * k
        props_k[-1] = 1.0 - sum(props_k[:-1])
        expect(ctx, {"what": f"combine_preference_intervals: {k} disjoint intervals"},
               lambda ivs=ivs: comb([PI(dict(d)) for d in ivs], list(props_k)), None, "interval_overlap")
        for sup in (1, 0):
            bad = [dict(d) for d in ivs]
            nm = next(iter(bad[a]))
            bad[b_][nm] = sup
            ctx.count("overlap_rows_not_involving_the_first_interval" if a > 0 else "overlap_rows_involving_the_first_interval")
            expect(ctx, {"what": f"combine_preference_intervals: intervals {a + 1} and {b_ + 1} of {k} share {nm} (support {sup} in the later one)"},
                   lambda bad=bad: comb([PI(dict(d)) for d in bad], list(props_k)), ValueError, "interval_overlap")
        # the same through a name model with three blocs: a bloc's intervals for the 2nd and 3rd slate share a candidate
        p3 = bp.gen_params(rnd, nblocs=3, max_slate=2, zero_support=False, extremes=False)
        n3 = list(p3["bloc_voter_prop"])
        q3 = copy.deepcopy(p3)
        vb = rnd.choice(n3)
        sh3 = q3["slate_to_candidates"][n3[2]][0]
        q3["pref_intervals_by_bloc"][vb][n3[1]][sh3] = rnd.choice([1, 0.5])
        mdl3 = rnd.choice(["name_PlackettLuce", "name_BradleyTerry", "name_Cumulative"])
        ex3 = {"num_votes": 2} if mdl3 == "name_Cumulative" else {}
        expect(ctx, {"what": f"{mdl3}: three blocs, valid parameters", "model": mdl3, "params": p3},
               lambda: bp.make(mdl3, p3, ex3), None, "interval_overlap")
        expect(ctx, {"what": f"{mdl3}: bloc {vb}'s intervals for the 2nd and 3rd slate share {sh3}", "model": mdl3, "params": q3},
               lambda: bp.make(mdl3, q3, ex3), ValueError, "interval_overlap")
        expect(ctx, {"what": "combine_preference_intervals: disjoint candidate sets"},
               lambda: comb([PI({"A": 1, "B": 1}), PI({"C": 2})], [0.5, 0.5]), None, "interval_overlap")
        for d, ok in ((1e-6, False), (0.2, False), (1e-12, True)):
            expect(ctx, {"what": f"combine_preference_intervals: proportions sum to 1{d:+g}"},
                   lambda d=d: comb([PI({"A": 1}), PI({"C": 2})], [0.5, 0.5 + d]), None if ok else ValueError, "generator_sums")
        dup = list(cs) + [rnd.choice(cs)]
        rnd.shuffle(dup)
        expect(ctx, {"what": f"PreferenceProfile: duplicate candidate in {dup}"},
               lambda: PreferenceProfile(ballots=(), candidates=tuple(dup)), ValueError, "profile_dups")
        expect(ctx, {"what": "PreferenceProfile: distinct candidates"},
               lambda: PreferenceProfile(ballots=(), candidates=tuple(cs)), None, "profile_dups")
    if ROWS:
        second_pass(ctx, rnd)


def second_pass(ctx, rnd):
    """every request of the repetition once more, in another order, on the same profile / parameter objects: a request that
    was (in)valid stays (in)valid whatever was asked in between (validation results remembered on objects or in caches)"""
    rows = list(ROWS)
    del ROWS[:]
    rnd.shuffle(rows)
    for case, fn, exc, row in rows:
        expect(ctx, case, fn, exc, row, second=True)


def replay(ctx, case):
    ctx.count("replay_by_rerun_only")
    run(ctx)
