"""Rule registry: JSON-able election configurations -> real VoteKit elections,
plus the bounded-progress monitors (round budget on _run_step, call budget via
sys.monitoring)."""
import sys
from fractions import Fraction as F

from .core import HarnessAbort, Outcome, observe
from . import canon

RANKING_RULES = ["STV", "IRV", "SequentialRCV", "Plurality", "SNTV", "Borda", "TopTwo", "Alaska",
                 "DominatingSets", "CondoBorda", "RandomDictator", "BoostedRandomDictator", "PluralityVeto"]
SCORE_RULES = ["Rating", "Limited", "Cumulative", "Approval", "BlocPlurality"]
ALL_RULES = RANKING_RULES + SCORE_RULES
STV_FAMILY = ("STV", "IRV", "SequentialRCV")
UNTIED_ONLY = ("STV", "IRV", "SequentialRCV", "Alaska")  # rules that reject tied positions; the pairwise rules and TopTwo accept them
INTENTIONALLY_RANDOM = ("RandomDictator", "BoostedRandomDictator", "PluralityVeto")
PAIRWISE = ("DominatingSets", "CondoBorda")
MULTI_ROUND = ("STV", "IRV", "SequentialRCV", "Alaska", "PluralityVeto", "RandomDictator", "BoostedRandomDictator")


class RoundBudget(HarnessAbort):
    pass


class CallBudget(HarnessAbort):
    pass


def E():
    import votekit.elections as el

    return el


_wrapped = False
_round_limit = [None]
STEP_LOG = [None]   # when set to a list: (election, profile_in, prev_state, profile_out) of every stored step
LAST_STEP = [None]  # (election object, prev_state) of the most recent stored step: lets a monitor see the tallies
#                     at the round in which a constructor raised


def install_round_budget():
    """Wrap _run_step of every concrete election class; counts stored rounds per object."""
    global _wrapped
    if _wrapped:
        return
    _wrapped = True
    el = E()
    seen = set()
    for name in ALL_RULES + ["GeneralRating"]:
        cls = getattr(el, name)
        for k in cls.__mro__:
            if "_run_step" in k.__dict__ and k not in seen and not getattr(k._run_step, "__isabstractmethod__", False):
                seen.add(k)
                orig = k.__dict__["_run_step"]

                def w(self, profile, prev_state, store_states=False, _orig=orig):
                    if store_states:
                        LAST_STEP[0] = (self, prev_state)
                        if STEP_LOG[0] is not None:
                            out = _orig(self, profile, prev_state, store_states)
                            STEP_LOG[0].append((self, profile, prev_state, out, self.election_states[-1] if self.election_states else None))
                            n = self.__dict__.get("_vk_rounds", 0) + 1
                            self.__dict__["_vk_rounds"] = n
                            if n > 2 * len(self._profile.candidates) + 4:
                                raise RoundBudget("more than %d rounds" % (2 * len(self._profile.candidates) + 4))
                            return out
                        n = self.__dict__.get("_vk_rounds", 0) + 1
                        self.__dict__["_vk_rounds"] = n
                        lim = 2 * len(self._profile.candidates) + 4
                        if n > lim:
                            raise RoundBudget(f"more than {lim} rounds")
                    return _orig(self, profile, prev_state, store_states)

                w.__wrapped__ = orig
                k._run_step = w


class CallCounter:
    """sys.monitoring PY_START budget (3.12+).  Disarms itself when it fires."""

    TOOL = 3

    def __init__(self, limit):
        self.limit, self.n, self.fired = limit, 0, False

    def __enter__(self):
        self.mon = getattr(sys, "monitoring", None)
        if self.mon is None:
            return self
        try:
            self.mon.use_tool_id(self.TOOL, "vk-calls")
        except ValueError:
            self.mon = None
            return self
        self.mon.register_callback(self.TOOL, self.mon.events.PY_START, self._cb)
        self.mon.set_events(self.TOOL, self.mon.events.PY_START)
        return self

    def _cb(self, code, off):
        self.n += 1
        if self.n > self.limit and not self.fired:
            self.fired = True
            self.mon.set_events(self.TOOL, 0)
            raise CallBudget(f"more than {self.limit} python calls")

    def __exit__(self, *a):
        if self.mon is not None:
            self.mon.set_events(self.TOOL, 0)
            self.mon.register_callback(self.TOOL, self.mon.events.PY_START, None)
            self.mon.free_tool_id(self.TOOL)
        return False


def full_weight_transfer(winner, fpv, ballots, threshold):
    """harness's own 'pass on at full weight' transfer (C13)"""
    from votekit import Ballot

    out = []
    for b in ballots:
        nr = tuple(frozenset(c for c in s if c != winner) for s in b.ranking)
        nr = tuple(s for s in nr if s)
        if nr:
            out.append(Ballot(ranking=nr, weight=b.weight))
    return tuple(out)


def transfer_fn(name):
    el = E()
    return {"fractional": el.fractional_transfer, "random": el.random_transfer,
            "full": full_weight_transfer}[name]


def num_as(x, numtype):
    """the same number in the requested representation (int / float / Fraction) when it is exactly representable there"""
    from fractions import Fraction as F
    x = F(x)
    if numtype == "int" and x.denominator == 1:
        return int(x)
    if numtype == "float" and F(float(x)) == x:
        return float(x)
    return x


def constructor(cfg, profile, transfer_override=None):
    """returns a zero-argument callable building the election described by cfg"""
    el = E()
    nt = cfg.get("numtype", "fraction")
    r = cfg["rule"]
    tb = cfg.get("tiebreak")
    m = cfg.get("m", 1)
    if r == "STV":
        tr = transfer_override or transfer_fn(cfg.get("transfer", "fractional"))
        return lambda: el.STV(profile, m=m, transfer=tr, quota=cfg.get("quota", "droop"),
                              simultaneous=cfg.get("sim", True), tiebreak=tb)
    if r == "IRV":
        return lambda: el.IRV(profile, quota=cfg.get("quota", "droop"), tiebreak=tb)
    if r == "SequentialRCV":
        return lambda: el.SequentialRCV(profile, m=m, quota=cfg.get("quota", "droop"),
                                        simultaneous=cfg.get("sim", True), tiebreak=tb)
    if r in ("Plurality", "SNTV"):
        return lambda: getattr(el, r)(profile, m=m, tiebreak=tb)
    if r == "Borda":
        sv = cfg.get("score_vector")
        sv = None if sv is None else [canon.pf(x) for x in sv]
        if sv is not None and cfg.get("sv_type") == "tuple":
            sv = tuple(sv)
        elif sv is not None and cfg.get("sv_type") == "float" and all(float(x) == x for x in sv):
            sv = [float(x) for x in sv]
        return lambda: el.Borda(profile, m=m, score_vector=sv, tiebreak=tb)
    if r == "TopTwo":
        return lambda: el.TopTwo(profile, tiebreak=tb)
    if r == "Alaska":
        tr = transfer_override or transfer_fn(cfg.get("transfer", "fractional"))
        return lambda: el.Alaska(profile, m_1=cfg["m_1"], m_2=cfg["m_2"], transfer=tr,
                                 quota=cfg.get("quota", "droop"), simultaneous=cfg.get("sim", True), tiebreak=tb)
    if r == "DominatingSets":
        return lambda: el.DominatingSets(profile)
    if r == "CondoBorda":
        return lambda: el.CondoBorda(profile, m=m)
    if r in ("RandomDictator", "BoostedRandomDictator"):
        return lambda: getattr(el, r)(profile, m=m)
    if r == "PluralityVeto":
        return lambda: el.PluralityVeto(profile, m=m, tiebreak=tb)
    if r == "Rating":
        return lambda: el.Rating(profile, m=m, L=num_as(canon.pf(cfg.get("L", "1")), nt), tiebreak=tb)
    if r == "Limited":
        return lambda: el.Limited(profile, m=m, k=num_as(canon.pf(cfg.get("k", "1")), nt), tiebreak=tb)
    if r == "Cumulative":
        return lambda: el.Cumulative(profile, m=m, tiebreak=tb)
    if r == "Approval":
        return lambda: el.Approval(profile, m=m, tiebreak=tb)
    if r == "BlocPlurality":
        k = cfg.get("k")
        return lambda: el.BlocPlurality(profile, m=m, k=None if k is None else num_as(k, cfg.get("numtype", "int")), tiebreak=tb)
    if r == "GeneralRating":
        k = cfg.get("k")
        return lambda: el.GeneralRating(profile, m=m, L=num_as(canon.pf(cfg.get("L", "1")), nt),
                                        k=None if k is None else num_as(canon.pf(k), nt), tiebreak=tb)
    raise KeyError(r)


def seats(cfg, ncands):
    r = cfg["rule"]
    if r in ("IRV", "TopTwo"):
        return 1
    if r == "Alaska":
        return cfg["m_2"]
    if r == "DominatingSets":
        return None
    return cfg.get("m", 1)


def run(cfg, profile, call_budget=None, transfer_override=None):
    """construct under the bounded-progress monitors; budget exceptions become outcomes"""
    install_round_budget()
    LAST_STEP[0] = None
    fn = constructor(cfg, profile, transfer_override)
    try:
        if call_budget:
            with CallCounter(call_budget) as cc:
                out = observe(fn)
            out_calls = cc.n
        else:
            out = observe(fn)
            out_calls = None
    except (RoundBudget, CallBudget) as e:
        return Outcome(exc=e), None
    return out, out_calls


def random_cfg(rnd, rule, n, m=None, integer=False):
    """a random valid configuration of `rule` for n candidates"""
    m = m or rnd.randint(1, n)
    tb = rnd.choice([None, "random", "borda", "first_place"])
    cfg = {"rule": rule, "m": m, "tiebreak": tb}
    if rule in ("STV", "SequentialRCV", "Alaska", "IRV"):
        cfg["quota"] = rnd.choice(["droop", "droop", "hare"])
    if rule in ("STV", "SequentialRCV", "Alaska"):
        cfg["sim"] = rnd.random() < 0.5
    if rule in ("STV", "Alaska"):
        cfg["transfer"] = "random" if (integer and rnd.random() < 0.5) else "fractional"
    if rule == "Alaska":
        cfg["m_2"] = m
        cfg["m_1"] = rnd.randint(m, n)
        del cfg["m"]
    if rule in ("IRV", "TopTwo", "DominatingSets"):
        cfg.pop("m", None)
    if rule in ("DominatingSets", "CondoBorda", "RandomDictator", "BoostedRandomDictator"):
        cfg.pop("tiebreak", None)
    if rule in SCORE_RULES:
        cfg["tiebreak"] = rnd.choice([None, "random"])
    return cfg
