#!/usr/bin/env python3
"""Regenerates MANIFEST.json from the table below (kept valid at all times)."""
import json, os
HERE = os.path.dirname(os.path.dirname(os.path.abspath(__file__)))
ALL = ["C%02d" % i for i in range(1, 21)]
CHECKS = {
 "C01": dict(
   technique="runtime monitor: invariants at the API boundary (seat count, per-round partition, monotone status), exception-policy oracle, round/call budgets; RNG interposition with depth-first enumeration of the choice tree",
   text="Every one of the 18 rule classes is constructed on generated valid profiles (uniform + 14 hostile classes + directed cases) while monitors watch the constructor outcome and every recorded round; random choices are scripted and the choice tree is enumerated up to a branch budget. Holds on the executions observed; nothing is claimed for inputs not run.",
   note="Trusted: the reference scorers / STV step relation used to decide when ValueError is allowed; 'terminates' is restated as <=2n+4 rounds and <=5e6 python calls. Known findings are suppressed only by mechanism predicates in vk/oracle.py.",
   ref="§4 C01"),
}
def main():
    checks = []
    for pid in ALL:
        if pid not in CHECKS: continue
        c = CHECKS[pid]
        checks.append({
          "property_id": pid,
          "quick_cmd": f"./check {pid} quick",
          "thorough_cmd": f"./check {pid} thorough",
          "evidence_file": f"evidence/{pid}.json",
          "replay_cmd_template": f"./check {pid} --replay {{path}}",
          "engine": "vk",
          "level_claimed": {"category": c.get("level", "exploration"), "text": c["text"], "design_ref": c["ref"]},
          "level_note": c["note"],
          "technique": c["technique"],
        })
    man = {
      "version": 1,
      "setup_cmd": "./setup.sh",
      "hooks": {"guard": "VOTEKIT_VERIF", "enable": "no source hooks: every observation point is reachable from the harness (public API, template methods, module-attribute RNG calls); checks import /repo/src directly in fresh interpreters",
                "baseline_off_cmd": "cd /repo && /venv/bin/python -m pytest -ra -q -p no:cacheprovider --timeout=900 --continue-on-collection-errors",
                "source_commits": [], "add_only": True},
      "engines": [{"name": "vk", "path": "vk/", "serves_properties": sorted(CHECKS),
                   "kind_free_text": "runtime monitors over real executions of /repo/src: sharded subprocess driver, seeded hostile workload generators, RNG interposition (tap/script/enumerate), exact-rational reference models, mechanism-keyed known findings"}],
      "checks": checks,
      "not_applicable": [{"property_id": p, "reason": "check not built yet in this session (planned, see DESIGN.md §4)"} for p in ALL if p not in CHECKS],
      "notes": "All checks: ./check <ID> <quick|thorough>; exit 0 held-on-observed (KNOWN-FINDING lines allowed), 1 VIOLATION, 2 INCONCLUSIVE. VERIF_SEED reseeds every generator.",
    }
    json.dump(man, open(os.path.join(HERE, "MANIFEST.json"), "w"), indent=1)
if __name__ == "__main__":
    main()
