import sys, random, itertools, io, contextlib, collections
sys.path[:0] = ['/repo/src', __import__('os').path.join(__import__('os').path.dirname(__import__('os').path.abspath(__file__)) if '__file__' in globals() else '.', 'shim')]
from fractions import Fraction as F
from votekit import Ballot, PreferenceProfile
from votekit.elections import STV, random_transfer, fractional_transfer
random.seed(int(sys.argv[1]) if len(sys.argv)>1 else 0)
cnt=collections.Counter()
for it in range(1500):
    n=random.randint(2,6); cands=[chr(65+i) for i in range(n)]
    # biased toward coalitions: pick a few base orders
    bl=[]
    S0=random.sample(cands, random.randint(1,n))
    for _ in range(random.randint(1,8)):
        if random.random()<0.6:
            r=random.sample(S0,len(S0)) + random.sample([c for c in cands if c not in S0], random.randint(0,n-len(S0)))
        else:
            r=random.sample(cands, random.randint(1,n))
        bl.append((tuple(r), F(random.randint(1,6))))
    m=random.randint(1,n-1) if n>1 else 1
    simult=random.random()<0.5; rt=random.random()<0.4
    prof=PreferenceProfile(ballots=tuple(Ballot(ranking=tuple(frozenset([c]) for c in r),weight=w) for r,w in bl), candidates=tuple(cands))
    try:
        with contextlib.redirect_stdout(io.StringIO()):
            e=STV(prof,m=m,simultaneous=simult,tiebreak='random',transfer=random_transfer if rt else fractional_transfer)
    except BaseException as ex:
        cnt[('EXC',type(ex).__name__, str(ex)[:30])]+=1; continue
    T=e.threshold; el={c for g in e.get_elected() for c in g}
    ok=True
    for k in range(1,n+1):
        for S in itertools.combinations(cands,k):
            S=set(S)
            W=sum(w for r,w in bl if len(r)>=len(S) and set(r[:len(S)])==S)
            kk=int(W/T)
            need=min(kk,len(S),m)
            if len(el&S)<need:
                ok=False; print('DPC FAIL',m,simult,rt,bl,S,W,T,el)
    cnt[('ok' if ok else 'BAD', rt)]+=1
print(cnt)
