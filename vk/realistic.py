"""Realistic workload: the README pipeline on the bundled Minneapolis 2013 cast vote record
(load_csv -> remove_noncands -> IRV), with an expected profile computed by the csv module."""
import csv
import os
from fractions import Fraction as F

from . import env

NONCANDS = ["undervote", "overvote", "UWI"]


def mn_path():
    return os.path.join(env.REPO_SRC, "votekit", "data", "mn_2013_cast_vote_record.csv")


def mn_rows():
    with open(mn_path(), newline="", encoding="utf8") as f:
        rd = csv.reader(f)
        next(rd)
        return [tuple(c if c != "" else None for c in row) for row in rd if row]


def expected_loaded(rows):
    exp = {}
    for r in rows:
        exp[r] = exp.get(r, F(0)) + 1
    return exp


def expected_cleaned(rows):
    """remove non-candidates (whole positions), drop repeats, drop ballots that end up empty"""
    exp = {}
    for r in rows:
        seen = []
        for c in r:
            if c not in NONCANDS and c not in seen:
                seen.append(c)
        if seen:
            exp[tuple(seen)] = exp.get(tuple(seen), F(0)) + 1
    return exp


def profile_ms(p):
    got = {}
    for b in p.ballots:
        k = tuple(next(iter(g)) for g in b.ranking)
        got[k] = got.get(k, F(0)) + b.weight
    return got
