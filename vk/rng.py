"""RNG interposition: the 'schedule' of VoteKit is its random stream.

The primitives the library draws from are module attributes looked up at call
time (random.sample, random.choices, random.uniform, random.random,
random.shuffle, np.random.choice/shuffle/uniform/random/normal), so they can be
wrapped from the harness without editing the repository.

modes
  tap     delegate to the real (seeded) primitive, record every call
  script  answer from a positional decision list; once exhausted fall back to a
          policy; record (decision, branching factor) per choice point so that
          explore() can enumerate the choice tree depth-first
"""
import itertools
import math
import random as _random

import numpy as _np

_ORIG = {
    ("random", "sample"): _random.sample,
    ("random", "choices"): _random.choices,
    ("random", "uniform"): _random.uniform,
    ("random", "random"): _random.random,
    ("random", "shuffle"): _random.shuffle,
    ("np", "choice"): _np.random.choice,
    ("np", "shuffle"): _np.random.shuffle,
    ("np", "uniform"): _np.random.uniform,
    ("np", "random"): _np.random.random,
    ("np", "normal"): _np.random.normal,
    ("random", "choice"): _random.choice,
    ("random", "randrange"): _random.randrange,
    ("random", "randint"): _random.randint,
    ("np", "permutation"): _np.random.permutation,
    ("np", "randint"): _np.random.randint,
    ("np", "rand"): _np.random.rand,
}
_ORIG_RANDOM_CLS = _random.Random
_ORIG_DEFAULT_RNG = _np.random.default_rng
_ORIG_RANDOMSTATE = _np.random.RandomState
_ACTIVE = [None]


def _from_votekit(depth=2):
    """was the caller (depth frames up) code of the library under test?"""
    import sys
    try:
        return sys._getframe(depth).f_globals.get("__name__", "").startswith("votekit")
    except ValueError:
        return False


class _SeenRandom(_ORIG_RANDOM_CLS):
    """random.Random as seen from the library: creating a private generator is noted on the active interposer"""
    def __init__(self, *a, **kw):
        super().__init__(*a, **kw)
        if _ACTIVE[0] is not None and _from_votekit():
            _ACTIVE[0].private += 1


def _seen_default_rng(*a, **kw):
    if _ACTIVE[0] is not None and _from_votekit():
        _ACTIVE[0].private += 1
    return _ORIG_DEFAULT_RNG(*a, **kw)


# np.random.RandomState itself is left alone: numpy and scipy test `isinstance(x, np.random.RandomState)` internally, and the
# library under test does not build one (a private RandomState would still show through the frequency tests)

UNIFORM_MENU = [0.0, 1.0, 0.5]
RANDOM_MENU = [0.0, 0.999999999, 0.5]


def _perm_menu(n, k, cap=24):
    """list of index tuples: all k-permutations if few, else identity/reverse/rotations"""
    if math.perm(n, k) <= cap:
        return list(itertools.permutations(range(n), k))
    idx = list(range(n))
    menu = [tuple(idx[:k]), tuple(idx[::-1][:k])]
    for r in (1, n // 2):
        menu.append(tuple((idx[r:] + idx[:r])[:k]))
    rr = _random.Random(n * 1000 + k)
    for _ in range(3):
        menu.append(tuple(rr.sample(idx, k)))
    out = []
    for m in menu:
        if m not in out:
            out.append(m)
    return out


class Rng:
    def __init__(self, mode="tap", script=None, policy="first", seed=0, only=None, uniform_menu=None, floats=None):
        assert mode in ("tap", "script")
        self.mode, self.script, self.policy = mode, list(script or []), policy
        self.seed = seed
        self.events = []
        self.trace = []  # (decision, nbranch) per scripted choice point
        self._pol = _random.Random(f"policy/{seed}")
        self.only = only  # optional set of primitive names to script; others are tapped
        self.uniform_menu = uniform_menu or UNIFORM_MENU
        # explicit values in [0,1) for successive random.random()/random.uniform() calls (kernel / law extraction);
        # once exhausted 0.5 is returned
        self.floats = None if floats is None else list(floats)
        self.float_calls = 0
        # randomness the wrappers did not see: the global generators' state moved without a wrapped call (random.choice,
        # getrandbits, np.random.permutation, ... any primitive not listed above), or the library built a private generator
        self.unseen = 0
        self.private = 0
        self._known = None

    def _fp(self):
        st = _np.random.get_state()
        return (hash(_random.getstate()), hash((st[1].tobytes(), st[2], st[3], st[4])))

    def _real(self, key, *a, **kw):
        """delegate to the real primitive - on the interposer's OWN seeded generators, so that the global generators'
        state only moves when the library draws through something that is not wrapped (checked once, on exit)"""
        mod, name = key
        if mod == "random":
            return getattr(self._pyr, name)(*a, **kw)
        return getattr(self._npr, {"random": "random_sample"}.get(name, name))(*a, **kw)

    # -------------------------------------------------------------- plumbing
    def __enter__(self):
        self._saved_state = (_random.getstate(), _np.random.get_state())
        _random.seed(self.seed)
        _np.random.seed(self.seed % (2 ** 32))
        _random.sample = self._sample
        _random.choices = self._choices
        _random.uniform = self._uniform
        _random.random = self._random
        _random.shuffle = self._shuffle
        _np.random.choice = self._np_choice
        _np.random.shuffle = self._np_shuffle
        _np.random.uniform = self._np_uniform
        _np.random.random = self._np_random
        _np.random.normal = self._np_normal
        _random.choice = self._choice
        _random.randrange = self._randrange
        _random.randint = self._randint
        _np.random.permutation = self._np_permutation
        _np.random.randint = self._np_randint
        _np.random.rand = self._np_rand
        _random.Random = _SeenRandom
        _np.random.default_rng = _seen_default_rng
        self._prev_active = _ACTIVE[0]
        _ACTIVE[0] = self
        self._pyr = _ORIG_RANDOM_CLS(self.seed)
        self._npr = _ORIG_RANDOMSTATE(self.seed % (2 ** 32))
        self._known = self._fp()
        return self

    def __exit__(self, *a):
        _random.sample = _ORIG[("random", "sample")]
        _random.choices = _ORIG[("random", "choices")]
        _random.uniform = _ORIG[("random", "uniform")]
        _random.random = _ORIG[("random", "random")]
        _random.shuffle = _ORIG[("random", "shuffle")]
        _np.random.choice = _ORIG[("np", "choice")]
        _np.random.shuffle = _ORIG[("np", "shuffle")]
        _np.random.uniform = _ORIG[("np", "uniform")]
        _np.random.random = _ORIG[("np", "random")]
        _np.random.normal = _ORIG[("np", "normal")]
        _random.choice = _ORIG[("random", "choice")]
        _random.randrange = _ORIG[("random", "randrange")]
        _random.randint = _ORIG[("random", "randint")]
        _np.random.permutation = _ORIG[("np", "permutation")]
        _np.random.randint = _ORIG[("np", "randint")]
        _np.random.rand = _ORIG[("np", "rand")]
        _random.Random = _ORIG_RANDOM_CLS
        _np.random.default_rng = _ORIG_DEFAULT_RNG
        _ACTIVE[0] = self._prev_active
        if self._known is not None and self._fp() != self._known:
            self.unseen += 1
        self._known = None
        _random.setstate(self._saved_state[0])
        _np.random.set_state(self._saved_state[1])
        return False

    @property
    def draws(self):
        """number of random draws met (wrapped calls, plus one per detected unwrapped consumption / private generator)"""
        return len(self.events) + self.unseen + self.private

    def _decide(self, nbranch):
        """positional decision; records the branching factor"""
        pos = len(self.trace)
        if pos < len(self.script):
            d = self.script[pos]
            if d >= nbranch:
                d = nbranch - 1
        elif self.policy == "first":
            d = 0
        elif self.policy == "last":
            d = nbranch - 1
        else:
            d = self._pol.randrange(nbranch)
        self.trace.append((d, nbranch))
        return d

    def _scripted(self, prim):
        return self.mode == "script" and (self.only is None or prim in self.only)

    def _ev(self, prim, **kw):
        kw["prim"] = prim
        kw["pos"] = len(self.events)
        self.events.append(kw)
        return kw

    # -------------------------------------------------------------- random.*
    def _sample(self, population, k, **kw):
        pop = list(population)
        if self._scripted("random.sample") and k <= len(pop):
            menu = _perm_menu(len(pop), k)
            d = self._decide(len(menu))
            res = [pop[i] for i in menu[d]]
            self._ev("random.sample", population=pop, k=k, result=res, decision=d, nbranch=len(menu))
            return res
        if k > len(pop):
            self._ev("random.sample", population=pop, k=k, result=None, short=True)
        res = self._real(("random", "sample"), population, k, **kw)
        self._ev("random.sample", population=pop, k=k, result=list(res))
        return res

    def _choices(self, population, weights=None, *, cum_weights=None, k=1):
        pop = list(population)
        if self._scripted("random.choices") and k == 1 and cum_weights is None and len(pop) > 0:
            idx = [i for i in range(len(pop)) if weights is None or weights[i] > 0]
            if not idx:
                idx = list(range(len(pop)))
            d = self._decide(len(idx))
            res = [pop[idx[d]]]
            self._ev("random.choices", population=pop, weights=None if weights is None else list(weights),
                     k=k, result=res, decision=d, nbranch=len(idx), index=idx[d])
            return res
        res = self._real(("random", "choices"), population, weights, cum_weights=cum_weights, k=k)
        self._ev("random.choices", population=pop, weights=None if weights is None else list(weights), k=k,
                 result=list(res))
        return res

    def _next_float(self):
        i = self.float_calls
        self.float_calls += 1
        return self.floats[i] if i < len(self.floats) else 0.5

    def _uniform(self, a, b):
        if self.floats is not None:
            v = a + (b - a) * self._next_float()
            self._ev("random.uniform", a=a, b=b, result=v, forced=True)
            return v
        if self._scripted("random.uniform"):
            menu = [a + (b - a) * x for x in self.uniform_menu]
            d = self._decide(len(menu))
            self._ev("random.uniform", a=a, b=b, result=menu[d], decision=d, nbranch=len(menu))
            return menu[d]
        res = self._real(("random", "uniform"), a, b)
        self._ev("random.uniform", a=a, b=b, result=res)
        return res

    def _random(self):
        if self.floats is not None:
            v = self._next_float()
            self._ev("random.random", result=v, forced=True)
            return v
        if self._scripted("random.random"):
            d = self._decide(len(RANDOM_MENU))
            self._ev("random.random", result=RANDOM_MENU[d], decision=d, nbranch=len(RANDOM_MENU))
            return RANDOM_MENU[d]
        res = self._real(("random", "random"), )
        self._ev("random.random", result=res)
        return res

    def _shuffle(self, x):
        if self._scripted("random.shuffle") and len(x) > 0:
            menu = _perm_menu(len(x), len(x))
            d = self._decide(len(menu))
            cp = list(x)
            for i, j in enumerate(menu[d]):
                x[i] = cp[j]
            self._ev("random.shuffle", n=len(cp), decision=d, nbranch=len(menu))
            return None
        self._real(("random", "shuffle"), x)
        self._ev("random.shuffle", n=len(x))
        return None

    def _choice(self, seq):
        seq_l = list(seq)
        if self._scripted("random.choice") and len(seq_l) > 0:
            d = self._decide(len(seq_l))
            self._ev("random.choice", population=seq_l, result=seq_l[d], decision=d, nbranch=len(seq_l))
            return seq_l[d]
        res = self._real(("random", "choice"), seq)
        self._ev("random.choice", population=seq_l, result=res)
        return res

    def _randrange(self, *a, **kw):
        rg = range(*a, **kw) if not kw else None
        if self._scripted("random.randrange") and rg is not None and 0 < len(rg) <= 64:
            d = self._decide(len(rg))
            self._ev("random.randrange", args=list(a), result=rg[d], decision=d, nbranch=len(rg))
            return rg[d]
        res = self._real(("random", "randrange"), *a, **kw)
        self._ev("random.randrange", args=list(a), result=res)
        return res

    def _randint(self, a, b):
        if self._scripted("random.randint") and 0 < b - a + 1 <= 64:
            d = self._decide(b - a + 1)
            self._ev("random.randint", args=[a, b], result=a + d, decision=d, nbranch=b - a + 1)
            return a + d
        res = self._real(("random", "randint"), a, b)
        self._ev("random.randint", args=[a, b], result=res)
        return res

    # -------------------------------------------------------------- numpy.random.*
    def _np_permutation(self, x):
        n = x if isinstance(x, (int, _np.integer)) else len(x)
        if self._scripted("np.permutation") and n > 0:
            menu = _perm_menu(int(n), int(n))
            d = self._decide(len(menu))
            base = _np.arange(n) if isinstance(x, (int, _np.integer)) else _np.array(x)
            self._ev("np.permutation", n=int(n), decision=d, nbranch=len(menu))
            return base[list(menu[d])]
        res = self._real(("np", "permutation"), x)
        self._ev("np.permutation", n=int(n))
        return res

    def _np_randint(self, *a, **kw):
        res = self._real(("np", "randint"), *a, **kw)
        self._ev("np.randint", args=[str(x) for x in a], result=res)
        return res

    def _np_rand(self, *a):
        res = self._real(("np", "rand"), *a)
        self._ev("np.rand", args=list(a), result=res)
        return res

    def _np_choice(self, a, size=None, replace=True, p=None):
        if self._scripted("np.choice") and size is None:
            pop = list(range(a)) if isinstance(a, (int, _np.integer)) else list(a)
            idx = [i for i in range(len(pop)) if p is None or p[i] > 0]
            if idx:
                d = self._decide(len(idx))
                res = pop[idx[d]]
                self._ev("np.choice", a=pop, size=None, replace=replace, p=None if p is None else list(p),
                         result=res, decision=d, nbranch=len(idx), index=idx[d])
                # mimic numpy's return type for str arrays
                return _np.array(pop)[idx[d]] if not isinstance(a, (int, _np.integer)) else res
        res = self._real(("np", "choice"), a, size=size, replace=replace, p=p)
        self._ev("np.choice", a=list(range(a)) if isinstance(a, (int, _np.integer)) else list(a), size=size,
                 replace=replace, p=None if p is None else list(p), result=res)
        return res

    def _np_shuffle(self, x):
        if self._scripted("np.shuffle") and len(x) > 0:
            menu = _perm_menu(len(x), len(x))
            d = self._decide(len(menu))
            cp = list(x)
            for i, j in enumerate(menu[d]):
                x[i] = cp[j]
            self._ev("np.shuffle", n=len(cp), decision=d, nbranch=len(menu))
            return None
        self._real(("np", "shuffle"), x)
        self._ev("np.shuffle", n=len(x))
        return None

    def _np_uniform(self, low=0.0, high=1.0, size=None):
        res = self._real(("np", "uniform"), low, high, size)
        self._ev("np.uniform", low=low, high=high, size=size, result=res)
        return res

    def _np_random(self, size=None):
        res = self._real(("np", "random"), size)
        self._ev("np.random", size=size, result=res)
        return res

    def _np_normal(self, loc=0.0, scale=1.0, size=None):
        res = self._real(("np", "normal"), loc, scale, size)
        self._ev("np.normal", loc=loc, scale=scale, size=size, result=res)
        return res


def tap(fn, seed=0, raw=False):
    """run fn() under a tapping interposer; returns (outcome, rng).
    raw=True: fn returns an Outcome itself."""
    from .core import observe

    r = Rng("tap", seed=seed)
    with r:
        out = fn() if raw else observe(fn)
    return out, r


def explore(fn, max_runs=6, policy="first", seed=0, only=None, raw=False):
    """Depth-first enumeration of the scripted choice tree of fn().
    Yields (script_taken, outcome, rng) for up to max_runs leaves; the last yielded
    rng has .exhausted True when the whole tree was enumerated."""
    from .core import observe

    script = []
    runs = 0
    while True:
        r = Rng("script", script=script, policy=policy, seed=seed, only=only)
        with r:
            out = fn() if raw else observe(fn)
        runs += 1
        trace = list(r.trace)
        # the script repeats the decisions of an earlier run of the same request up to its last entry, so this run must meet
        # the same choice points again (same number of alternatives) and take the scripted decisions; if it does not, the
        # request behaved differently the second time it was made in this process (e.g. a random decision remembered
        # instead of being drawn again)
        r.divergence = None
        if runs > 1:
            taken = [d for d, _ in trace][:len(script)]
            if taken != list(script) or [n for _, n in trace][:len(script) - 1] != prev_factors[:len(script) - 1]:
                r.divergence = {"scripted": list(script), "taken": [d for d, _ in trace], "earlier_alternatives": prev_factors[:len(script)]}
        prev_factors = [n for _, n in trace]
        nxt = list(trace)
        while nxt and nxt[-1][0] + 1 >= nxt[-1][1]:
            nxt.pop()
        r.exhausted = not nxt
        yield [d for d, _ in trace], out, r
        if not nxt or runs >= max_runs:
            return
        script = [d for d, _ in nxt[:-1]] + [nxt[-1][0] + 1]
