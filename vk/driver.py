"""Driver: shards a check over worker subprocesses, aggregates, classifies findings
against known_findings.json, writes evidence, prints verdict lines.

exit 0 = held on what was observed (KNOWN-FINDING lines allowed)
exit 1 = VIOLATION (line printed, replay file written)
exit 2 = INCONCLUSIVE (origin assertion, watchdog, harness error, minimum observation not met)
"""
import importlib
import json
import os
import shutil
import subprocess
import sys
import time

from . import env, canon, core

NPROC = int(os.environ.get("VK_NPROC", "16"))


def _spawn(pid, tier, seed, shard, nshards, out, hashseed, replay=None):
    e = dict(os.environ)
    e["PYTHONHASHSEED"] = str(hashseed)
    e["PYTHONDONTWRITEBYTECODE"] = "1"
    e["OMP_NUM_THREADS"] = e["OPENBLAS_NUM_THREADS"] = e["MKL_NUM_THREADS"] = "1"
    e["PYTHONWARNINGS"] = "ignore"
    cmd = [env.PYTHON, "-m", "vk.worker", pid, tier, str(seed), str(shard), str(nshards), out]
    if replay:
        cmd.append(replay)
    return subprocess.Popen(cmd, cwd=env.VERIF, env=e, stdout=subprocess.DEVNULL, stderr=subprocess.PIPE)


def run_check(pid, tier, seed, replay=None):
    t0 = time.time()
    pid = pid.upper()
    mod = importlib.import_module(f"vk.mon.{pid.lower()}")
    META = mod.META
    if not replay:
        shutil.rmtree(os.path.join(env.VERIF, "replays", pid), ignore_errors=True)  # replays of earlier runs are stale
    work = os.path.join(env.VERIF, ".work", f"drv{os.getpid()}")
    os.makedirs(work, exist_ok=True)
    nshards = 1 if replay else META.get("nshards", {}).get(tier, NPROC)
    hashseeds = [0] if replay else META.get("hashseeds", {}).get(tier, [0])
    watchdog = META.get("watchdog", {}).get(tier, 900 if tier == "quick" else 7200)
    jobs = []
    for hs in hashseeds:
        for sh in range(nshards):
            jobs.append((hs, sh, os.path.join(work, f"{pid}_{hs}_{sh}.json")))
    results, inconclusive = [], []
    pending = list(jobs)
    running = []
    while pending or running:
        while pending and len(running) < NPROC:
            hs, sh, out = pending.pop(0)
            running.append((hs, sh, out, _spawn(pid, tier, seed, sh, nshards, out, hs, replay), time.time()))
        time.sleep(0.05)
        still = []
        for hs, sh, out, p, ts in running:
            rc = p.poll()
            if rc is None:
                if time.time() - ts > watchdog:
                    p.kill()
                    inconclusive.append(f"worker shard={sh} hashseed={hs} killed by wall-clock watchdog ({watchdog}s)")
                else:
                    still.append((hs, sh, out, p, ts))
                continue
            err = p.stderr.read().decode(errors="replace")
            if not os.path.exists(out):
                inconclusive.append(f"worker shard={sh} hashseed={hs} died rc={rc}: {err[-1500:]}")
                continue
            r = json.load(open(out))
            if r.get("fatal"):
                inconclusive.append(f"worker shard={sh}: {r['fatal'][-1500:]}")
                continue
            r["hashseed"] = hs
            results.append(r)
        running = still
    shutil.rmtree(work, ignore_errors=True)

    # ---- aggregate
    counters, hashes, nontriv, samples, fails, fail_counts, herrs = {}, set(), set(), [], [], {}, []
    evaluations = 0
    for r in sorted(results, key=lambda r: (r["hashseed"], r["shard"])):
        evaluations += r["evaluations"]
        hashes.update(r["hashes"])
        nontriv.update(r["nontrivial"])
        for k, v in r["counters"].items():
            counters[k] = counters.get(k, 0) + v
        for s in r["samples"]:
            if len(samples) < 8:
                samples.append(s)
        fails += r["fails"]
        for k, v in r["fail_counts"].items():
            fail_counts[k] = fail_counts.get(k, 0) + v
        herrs += r["harness_errors"]
    post_info = {}
    if hasattr(mod, "post") and not replay:
        try:
            post_info = mod.post(results, fails, counters) or {}
        except Exception:
            import traceback

            herrs.append({"where": "post", "tb": traceback.format_exc()})

    known = [k for k in core.load_known()["findings"] if k["property"] == pid and k.get("status") == "known"]
    known_keys = {k["key"]: k for k in known}
    violations, known_seen = [], {}
    for f in fails:
        if f["mech"] in known_keys:
            known_seen.setdefault(f["mech"], []).append(f)
        else:
            violations.append(f)
    # fail_counts may include mechs whose examples were truncated
    for k, v in fail_counts.items():
        if k in known_keys and k not in known_seen:
            known_seen[k] = []

    for h in herrs[:3]:
        inconclusive.append("harness error at %s: %s" % (h["where"], h["tb"][-1200:]))
    if not replay:
        for name, mn in META.get("min_obs", {}).get(tier, META.get("min_obs", {}).get("all", {})).items():
            if counters.get(name, 0) < mn:
                inconclusive.append(f"minimum observation not met: {name}={counters.get(name, 0)} < {mn}")

    lines = []
    for k in sorted(known_seen):
        n = fail_counts.get(k, len(known_seen[k]))
        lines.append(f"KNOWN-FINDING: property={pid} {k} {known_keys[k]['what']} (re-observed {n}x)")
    rc = 0
    os.makedirs(os.path.join(env.VERIF, "replays", pid), exist_ok=True)
    seen_rep = set()
    for f in violations:
        h = canon.jhash([f["what"], f["case"]])
        if h in seen_rep:
            continue
        seen_rep.add(h)
        path = os.path.join("replays", pid, h + ".json")
        with open(os.path.join(env.VERIF, path), "w") as fh:
            json.dump({"property": pid, "what": f["what"], "mech": f["mech"], "case": f["case"],
                       "detail": f["detail"], "seed": seed, "tier": tier}, fh, indent=1)
        if len(seen_rep) <= 12:
            lines.append(f"VIOLATION property={pid} replay={path}  # {f['what']}" + (f" [{f['mech']}]" if f["mech"] else ""))
        rc = 1
    if rc == 0 and inconclusive:
        rc = 2
    for m in inconclusive[:6]:
        lines.append(f"INCONCLUSIVE property={pid} {m}")

    wall = time.time() - t0
    if not replay:
        cov = {
            "evaluations": evaluations,
            "distinct": len(hashes),
            "distinct_nontrivial": len(nontriv),
            "rule": META["rule"] + (" Shared workload slices (counted in monitor_counters where a monitor has its own counter): the same "
                                    "object used twice and look-alike requests back to back in one process; beyond-hand-size profiles "
                                    "(8-12 candidates, 30-80 ballots); magnitudes 10^-20..10^18 with near-ties one unit apart; "
                                    "non-default options and argument types where the property covers them."),
            "samples": samples,
            "monitor_counters": dict(sorted(counters.items())),
            "known_findings_reobserved": {k: fail_counts.get(k, 0) for k in sorted(known_seen)},
            "violation_mechanisms": {k: v for k, v in sorted(fail_counts.items()) if k not in known_keys},
            "inconclusive": inconclusive[:6],
            "workers": len(results), "hashseeds": hashseeds,
            "verdict": {0: "held-on-observed", 1: "violation", 2: "inconclusive"}[rc],
        }
        cov.update(post_info.get("coverage", {}))
        if META.get("exhaustive_subcheck"):
            cov["exhaustive_subcheck"] = META["exhaustive_subcheck"]
        ev = {
            "property_id": pid, "tier": tier, "seed": seed, "level": META.get("level", "exploration"),
            "coverage": cov, "assumptions": META.get("assumptions", []), "wall_s": round(wall, 2),
            "violations": len(seen_rep),
        }
        # evidence/ only ever describes runs against /repo itself; runs against a scratch tree (VK_REPO_SRC, used by the
        # self-tests and the seeded-change verification) write to a git-ignored directory instead
        evdir = "evidence" if os.path.realpath(env.REPO_SRC) == os.path.realpath("/repo/src") else os.path.join(".work", "evidence_scratch")
        os.makedirs(os.path.join(env.VERIF, evdir), exist_ok=True)
        with open(os.path.join(env.VERIF, evdir, pid + ".json"), "w") as fh:
            json.dump(ev, fh, indent=1, sort_keys=True)
    for ln in lines:
        print(ln)
    summary = {k: counters[k] for k in list(sorted(counters))[:40]}
    print(f"{pid} {tier} seed={seed}: evaluations={evaluations} distinct={len(hashes)} nontrivial={len(nontriv)} "
          f"violations={len(seen_rep)} known={sorted(known_seen)} wall={wall:.1f}s rc={rc}")
    print("counters:", json.dumps(summary))
    return rc


def main(argv):
    if len(argv) < 2:
        print("usage: check <ID> <quick|thorough> | check <ID> --replay PATH")
        return 64
    pid = argv[0]
    seed = int(os.environ.get("VERIF_SEED", "0"))
    if argv[1] == "--replay":
        return run_check(pid, os.environ.get("VERIF_TIER", "quick"), seed, replay=os.path.abspath(argv[2]))
    tier = argv[1]
    if tier not in ("quick", "thorough"):
        print("tier must be quick or thorough")
        return 64
    return run_check(pid, tier, seed)


if __name__ == "__main__":
    sys.exit(main(sys.argv[1:]))
