#!/usr/bin/env python3
"""tools/save_seeded.py <name> <property> <srcdir> <needs> <caught_by> <ran>  -> seeded/<name>/{patch.diff,demo.py,notes.md,meta.json}"""
import json, os, shutil, sys
name, prop, src, needs, caught, ran = sys.argv[1:7]
d = os.path.join(os.path.dirname(os.path.dirname(os.path.abspath(__file__))), "seeded", name)
os.makedirs(d, exist_ok=True)
for f in ("patch.diff", "demo.py", "notes.md"):
    if os.path.exists(os.path.join(src, f)):
        shutil.copy(os.path.join(src, f), os.path.join(d, f))
json.dump({"breaks_property": prop, "origin": "independent sub-agent given only the property text and a scratch worktree of /repo",
           "needs_to_manifest": needs, "caught_by": caught.split(","), "what_i_ran": ran,
           "base_commit": os.popen("git -C /repo rev-parse --short HEAD").read().strip()}, open(os.path.join(d, "meta.json"), "w"), indent=1)
print("saved", d)
