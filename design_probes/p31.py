import sys, random, collections, math, io, contextlib, itertools
sys.path[:0] = ['/repo/src', __import__('os').path.join(__import__('os').path.dirname(__import__('os').path.abspath(__file__)) if '__file__' in globals() else '.', 'shim')]
from fractions import Fraction as F
import numpy as np
from votekit import Ballot, PreferenceProfile
from votekit.elections import RandomDictator, BoostedRandomDictator
fs = lambda *xs: tuple(frozenset(x if isinstance(x,(set,list,tuple)) else [x]) for x in xs)
bl=[(fs({'A','B'},'C'),F(3)),(fs('B','A'),F(2)),(fs('C'),F(1)),(fs('A','C','B'),F(5,2))]
p=PreferenceProfile(ballots=tuple(Ballot(ranking=r,weight=w) for r,w in bl),candidates=('A','B','C'))
def remove(bl,c):
    out=[]
    for r,w in bl:
        r2=tuple(s2 for s2 in (frozenset(x for x in s if x!=c) for s in r) if s2)
        if r2: out.append((r2,w))
    return out
def rd_law(bl,cands):
    W=sum(w for _,w in bl); d={c:F(0) for c in cands}
    for r,w in bl:
        for c in r[0]: d[c]+=w/W/len(r[0])
    return d
def seq_law(bl,cands,m,rule):
    if m==0: return {():F(1)}
    out=collections.defaultdict(F)
    for c,pc in rule(bl,cands).items():
        if pc==0: continue
        for rest,pr in seq_law(remove(bl,c),[x for x in cands if x!=c],m-1,rule).items():
            out[(c,)+rest]+=pc*pr
    return out
def brd_law(bl,cands):
    c=len(cands)
    if c==1: return {cands[0]:F(1)}
    rd=rd_law(bl,cands)
    sq={k:v*v for k,v in rd.items()}; s=sum(sq.values()); sq={k:v/s for k,v in sq.items()}
    q=F(1,c-1)
    return {k:(1-q)*rd[k]+q*sq[k] for k in cands}
N=20000
for name,cls,rule,m in [('RD',RandomDictator,rd_law,1),('RD',RandomDictator,rd_law,2),('BRD',BoostedRandomDictator,brd_law,1),('BRD',BoostedRandomDictator,brd_law,2)]:
    law=seq_law(bl,['A','B','C'],m,rule)
    c=collections.Counter()
    random.seed(1); np.random.seed(1)
    for _ in range(N):
        with contextlib.redirect_stdout(io.StringIO()):
            e=cls(p,m=m)
        c[tuple(next(iter(g)) for g in e.get_elected())]+=1
    dev=max(abs(c[k]/N-float(v)) for k,v in law.items())
    t=math.sqrt(math.log(2*len(law)/1e-9)/(2*N))
    print(name,m,'maxdev',round(dev,4),'threshold',round(t,4),{k:(round(c[k]/N,3),round(float(v),3)) for k,v in law.items()})
