import sys, traceback, signal
sys.path[:0] = ['/repo/src', __import__('os').path.join(__import__('os').path.dirname(__import__('os').path.abspath(__file__)) if '__file__' in globals() else '.', 'shim')]
from fractions import Fraction as F
from votekit import Ballot, PreferenceProfile
from votekit.elections import *
fs = lambda *xs: tuple(frozenset(x if isinstance(x,(set,list,tuple)) else [x]) for x in xs)
def prof(bl, cands=None):
    return PreferenceProfile(ballots=tuple(Ballot(ranking=fs(*r), weight=w) for r,w in bl), candidates=tuple(cands) if cands else ())
class TO(Exception): pass
def handler(s,f): raise TO()
signal.signal(signal.SIGALRM, handler)
def tryit(name, f):
    signal.alarm(5)
    try:
        e = f()
        signal.alarm(0)
        print(name, 'OK elected', e.get_elected(), 'rounds', len(e.election_states))
        return e
    except TO:
        print(name, 'TIMEOUT (non-termination?)')
    except BaseException as ex:
        signal.alarm(0)
        print(name, 'EXC', type(ex).__name__, ex)
# Hare over-election
p = prof([(['A'],1),(['B'],1),(['C'],1)])
tryit('STV hare m=2 3x1', lambda: STV(p, m=2, quota='hare'))
tryit('STV hare m=2 3x1 rand tb', lambda: STV(p, m=2, quota='hare', tiebreak='random'))
tryit('STV hare m=2 onebyone', lambda: STV(p, m=2, quota='hare', simultaneous=False, tiebreak='random'))
# hare N<m: threshold 0
p = prof([(['A','B','C'],1)])
tryit('STV hare m=2 N=1', lambda: STV(p, m=2, quota='hare'))
# default election replay
p = prof([(['A'],3),(['B'],2),(['C'],1)])
e = tryit('STV droop m=2 bullet', lambda: STV(p, m=2))
if e:
    for r in range(len(e.election_states)):
        pr = e.get_profile(r)
        print(r, 'state', e.election_states[r].elected, e.election_states[r].eliminated, e.election_states[r].remaining, 'profile cands', pr.candidates, [ (b.ranking,b.weight) for b in pr.ballots])
# random transfer crash
p = prof([(['A'],10),(['B','A'],3),(['C'],2)])
tryit('STV random transfer bullet', lambda: STV(p, m=2, transfer=random_transfer))
# RandomDictator exhaustion
p = prof([(['A'],3)], cands='ABC')
tryit('RD m=2 exhausted', lambda: RandomDictator(p, m=2))
tryit('BRD m=2 exhausted', lambda: BoostedRandomDictator(p, m=2))
p = prof([(['A','B'],3),(['B','A'],2)])
tryit('BRD m=2 of 2', lambda: BoostedRandomDictator(p, m=2))
tryit('RD m=2 of 2', lambda: RandomDictator(p, m=2))
# PluralityVeto
p = prof([(['A'],1)], cands='ABC')
tryit('PV m=1 single bullet', lambda: PluralityVeto(p, m=1))
p = prof([(['A','B','C'],2),(['B','C','A'],2),(['C','A','B'],1)])
e = tryit('PV m=1 normal', lambda: PluralityVeto(p, m=1))
if e:
    try: print(e.get_profile(1))
    except BaseException as ex: print('get_profile EXC', type(ex).__name__, ex)
tryit('PV m=2 normal', lambda: PluralityVeto(p, m=2))
tryit('PV m=3 normal', lambda: PluralityVeto(p, m=3))
# TopTwo single candidate
p = prof([(['A'],1)])
tryit('TopTwo 1 cand', lambda: TopTwo(p))
tryit('IRV 1 cand', lambda: IRV(p))
tryit('Plurality 1 cand', lambda: Plurality(p))
tryit('DominatingSets 1 cand', lambda: DominatingSets(p))
tryit('CondoBorda 1 cand', lambda: CondoBorda(p))
tryit('Alaska 1 cand m1=1', lambda: Alaska(p, m_1=1, m_2=1))
