"""Reference STV step relation (C02 statement), exact rationals, untied rankings.

Nondeterministic exactly where the statement is: a one-by-one election tie and an
elimination tie that survives the initial-first-place filter.  validate() follows
the observed choices (trace validation); analyze() explores the branches forward
to classify inputs (over-quota, zero quota, ties) when no trace exists.
"""
from fractions import Fraction as F


class State:
    __slots__ = ("ballots", "standing", "elected", "round")

    def __init__(self, ballots, standing, elected, rnd=0):
        self.ballots, self.standing, self.elected, self.round = ballots, standing, elected, rnd


class Ref:
    def __init__(self, cands, ballots, m, quota="droop", simultaneous=True, full_weight=False):
        """ballots: [(ranking tuple of candidates, Fraction weight)]"""
        self.cands = list(cands)
        self.m, self.quota, self.sim, self.full = m, quota, simultaneous, full_weight
        self.N = sum((w for _, w in ballots), F(0))
        if quota == "droop":
            self.T = (self.N / (m + 1)).__floor__() + 1
        elif quota == "hare":
            self.T = (self.N / m).__floor__()
        else:
            raise KeyError(quota)
        b = {}
        for r, w in ballots:
            r = tuple(r)
            if r and w > 0:
                b[r] = b.get(r, F(0)) + w
        self.init = State(b, set(self.cands), [])
        self.init_tally = self.tally(self.init)

    def tally(self, st):
        t = {c: F(0) for c in st.standing}
        for r, w in st.ballots.items():
            t[r[0]] += w
        return t

    def seats_left(self, st):
        return self.m - len(st.elected)

    def options(self, st):
        """(kind, choices, info): kind in elect/default/elim/done; choices = list of
        frozensets (elect: the allowed elected sets; elim: allowed single candidates)"""
        if len(st.elected) >= self.m:
            return "done", [], {}
        t = self.tally(st)
        above = [c for c in st.standing if t[c] >= self.T]
        info = {"above": sorted(above), "tally": t}
        if above:
            if self.sim:
                return "elect", [frozenset(above)], info
            mx = max(t[c] for c in above)
            top = [c for c in above if t[c] == mx]
            info["top_tie"] = sorted(top) if len(top) > 1 else None
            return "elect", [frozenset([c]) for c in sorted(top)], info
        if len(st.standing) == self.seats_left(st):
            return "default", [frozenset(st.standing)], info
        if not st.standing:
            return "stuck", [], info
        mn = min(t.values())
        low = [c for c in st.standing if t[c] == mn]
        info["low_tie"] = sorted(low) if len(low) > 1 else None
        if len(low) > 1:
            mi = min(self.init_tally[c] for c in low)
            low = [c for c in low if self.init_tally[c] == mi]
            info["low_tie_after_init"] = sorted(low)
        return "elim", [frozenset([c]) for c in sorted(low)], info

    def apply(self, st, kind, choice):
        t = self.tally(st)
        nb = {}
        exhausted = F(0)
        if kind == "elect":
            for r, w in st.ballots.items():
                f = r[0]
                if f in choice:
                    w2 = w if self.full else (w * (t[f] - self.T) / t[f] if t[f] != 0 else F(0))
                else:
                    w2 = w
                r2 = tuple(c for c in r if c not in choice)
                if r2 and w2 > 0:
                    nb[r2] = nb.get(r2, F(0)) + w2
                elif not r2:
                    exhausted += w2
            return State(nb, st.standing - set(choice), st.elected + sorted(choice), st.round + 1), exhausted
        if kind == "default":
            return State({}, set(), st.elected + sorted(choice), st.round + 1), sum(st.ballots.values(), F(0))
        if kind == "elim":
            for r, w in st.ballots.items():
                r2 = tuple(c for c in r if c not in choice)
                if r2:
                    nb[r2] = nb.get(r2, F(0)) + w
                else:
                    exhausted += w
            return State(nb, st.standing - set(choice), list(st.elected), st.round + 1), exhausted
        raise KeyError(kind)

    # ------------------------------------------------------------ forward analysis
    def analyze(self, max_leaves=40):
        """explore tie branches; returns flags dict (true if reachable on some branch)"""
        flags = {"over_quota": False, "zero_quota": self.T <= 0, "elect_tie": False, "elim_tie_random": False,
                 "elim_tie": False, "stuck": False, "leaves": 0, "winner_sets": set(), "truncated": False,
                 "rounds": 0, "surplus_transfer": False, "exhausted": False, "default": False, "elim": False}
        stack = [self.init]
        while stack:
            st = stack.pop()
            kind, choices, info = self.options(st)
            if kind == "done":
                flags["leaves"] += 1
                flags["winner_sets"].add(frozenset(st.elected))
                flags["rounds"] = max(flags["rounds"], st.round)
                if flags["leaves"] >= max_leaves:
                    flags["truncated"] = bool(stack)
                    break
                continue
            if kind == "stuck":
                flags["stuck"] = True
                continue
            if kind == "elect":
                if self.sim and len(choices[0]) > self.seats_left(st):
                    flags["over_quota"] = True
                    continue
                if len(choices) > 1:
                    flags["elect_tie"] = True
                t = info["tally"]
                if any(t[c] > self.T for ch in choices for c in ch):
                    flags["surplus_transfer"] = True
            elif kind == "elim":
                flags["elim"] = True
                if info.get("low_tie"):
                    flags["elim_tie"] = True
                if len(choices) > 1:
                    flags["elim_tie_random"] = True
            elif kind == "default":
                flags["default"] = True
            for ch in choices:
                st2, ex = self.apply(st, kind, ch)
                if ex > 0:
                    flags["exhausted"] = True
                stack.append(st2)
        return flags

    # ------------------------------------------------------------ trace validation
    def validate(self, states, threshold, tiebreak_check=None):
        """states: list of observed round records as dicts
             {elected: set, eliminated: set, scores: dict, remaining: list of frozensets}
        returns (problems, info) ; follows observed choices."""
        probs = []
        info = {"rounds": 0, "elect_rounds": 0, "elim_rounds": 0, "default_rounds": 0, "surplus": 0,
                "ties_followed": 0, "exhausted": F(0), "per_round": []}
        if threshold != self.T:
            probs.append(("threshold", str(threshold), str(self.T)))
        st = self.init

        def chk(i, st):
            t = self.tally(st)
            s = states[i]
            if dict(s["scores"]) != t:
                probs.append(("scores", i, {str(k): str(v) for k, v in s["scores"].items()},
                              {str(k): str(v) for k, v in t.items()}))
            by = {}
            for c, v in t.items():
                by.setdefault(v, set()).add(c)
            exp = [frozenset(by[v]) for v in sorted(by, reverse=True)]
            obs = [g for g in s["remaining"] if len(g) > 0]
            if obs != exp:
                probs.append(("remaining", i, [sorted(g) for g in obs], [sorted(g) for g in exp]))

        chk(0, st)
        i = 0
        while True:
            kind, choices, oinfo = self.options(st)
            if kind == "done":
                break
            i += 1
            if i >= len(states):
                probs.append(("too few rounds", i, len(states)))
                return probs, info
            s = states[i]
            oel, oelim = frozenset(s["elected"]), frozenset(s["eliminated"])
            if kind == "stuck":
                probs.append(("reference stuck", i))
                return probs, info
            if kind == "elect" and self.sim and len(choices[0]) > self.seats_left(st):
                info["over_quota"] = True
                return probs, info  # outside the statement's domain: judged by C01
            if kind in ("elect", "default"):
                if oel not in choices or oelim:
                    probs.append((kind, i, sorted(oel), [sorted(c) for c in choices], sorted(oelim)))
                    return probs, info
                ch = oel
            else:
                if oelim not in choices or oel:
                    probs.append((kind, i, sorted(oelim), [sorted(c) for c in choices], sorted(oel),
                                  {"low_tie": oinfo.get("low_tie")}))
                    return probs, info
                ch = oelim
            if len(choices) > 1:
                info["ties_followed"] += 1
            t = oinfo["tally"]
            rec = {"kind": kind, "choice": sorted(ch), "nchoices": len(choices), "T": self.T,
                   "quota_elected": len(ch) if kind == "elect" else 0,
                   "ballots_before": dict(st.ballots), "standing_before": set(st.standing), "tally_before": dict(t),
                   "seats_left_before": self.seats_left(st)}
            if kind == "elect":
                info["elect_rounds"] += 1
                if any(t[c] > self.T for c in ch):
                    info["surplus"] += 1
            elif kind == "elim":
                info["elim_rounds"] += 1
            else:
                info["default_rounds"] += 1
            w_before = sum(st.ballots.values(), F(0))
            st, ex = self.apply(st, kind, ch)
            rec["w_before"], rec["w_after"], rec["exhausted"] = w_before, sum(st.ballots.values(), F(0)), ex
            info["exhausted"] += ex
            info["per_round"].append(rec)
            info["rounds"] += 1
            chk(i, st)
        if i != len(states) - 1:
            probs.append(("extra rounds", i, len(states)))
        info["winners"] = list(st.elected)
        return probs, info
