import sys, random, itertools
sys.path[:0] = ['/repo/src', __import__('os').path.join(__import__('os').path.dirname(__import__('os').path.abspath(__file__)) if '__file__' in globals() else '.', 'shim')]
from fractions import Fraction as F
from votekit import Ballot, PreferenceProfile
import votekit.utils as u, votekit.cleaning as cl
from votekit.metrics import lp_dist
from votekit.graphs import BallotGraph
fs = lambda *xs: tuple(frozenset(x if isinstance(x,(set,list,tuple)) else [x]) for x in xs)
b = Ballot(ranking=fs('A','B'), weight=2)
for kw in [{}, {'leave_zero_weight_ballots':True}, {'condense':False}]:
    try: print('remove all single', kw, repr(u.remove_cand(['A','B'], b, **kw)))
    except BaseException as e: print('remove all single', kw, 'EXC', type(e).__name__, e)
try: print('tuple', u.remove_cand(['A','B'], (b,)))
except BaseException as e: print('EXC', type(e).__name__, e)
print('profile', u.remove_cand(['A','B'], PreferenceProfile(ballots=(b,))).ballots)
# scored + ranked mix in remove_cand with condense
b1 = Ballot(ranking=fs('A','B'), weight=1); b2 = Ballot(ranking=fs('A','B','C'), scores={'A':1}, weight=1)
print('mix', [(x.ranking,x.scores,x.weight) for x in u.remove_cand('C', PreferenceProfile(ballots=(b1,b2))).ballots])
# expand
e = u.expand_tied_ballot(Ballot(ranking=fs({'A','B'},'C',{'D','E','F'}), weight=F(1)))
print(len(e), sum(x.weight for x in e), len(set(x.ranking for x in e)))
# resolve_profile_ties drops candidates list?
pp = PreferenceProfile(ballots=(Ballot(ranking=fs({'A','B'})),), candidates=('A','B','Z'))
print(u.resolve_profile_ties(pp).candidates)
# add_missing_cands
print(u.add_missing_cands(pp).ballots[0].ranking)
# cleaning
pp = PreferenceProfile(ballots=(Ballot(ranking=fs('A','B','A'),weight=2),Ballot(ranking=fs('X','A'),weight=1),Ballot(ranking=fs('A','B'),weight=1),Ballot(ranking=fs('X'),weight=5)))
r = cl.remove_noncands(pp, ['X']); print('noncands', [(x.ranking,x.weight) for x in r.ballots], r.candidates)
r = cl.deduplicate_profiles(pp); print('dedup', [(x.ranking,x.weight) for x in r.ballots])
r = cl.remove_empty_ballots(PreferenceProfile(ballots=(Ballot(weight=3),Ballot(ranking=fs('A')))), keep_candidates=True); print('empty', [(x.ranking,x.weight) for x in r.ballots])
# lp
p1 = PreferenceProfile(ballots=(Ballot(ranking=fs('A','B'),weight=1),Ballot(ranking=fs('B'),weight=3)))
p2 = PreferenceProfile(ballots=(Ballot(ranking=fs('B'),weight=6),Ballot(ranking=fs('A','B'),weight=2)))
p3 = PreferenceProfile(ballots=(Ballot(ranking=fs('B','A'),weight=1),))
for p in (1,2,3,'inf'): print(p, lp_dist(p1,p2,p), lp_dist(p1,p3,p), lp_dist(p3,p1,p))
for n in range(1,6):
    g = BallotGraph(n).graph
    print(n, g.number_of_nodes(), g.number_of_edges())
bg = BallotGraph(PreferenceProfile(ballots=(Ballot(ranking=fs('A','B'),weight=2),Ballot(ranking=fs('C'),weight=1),Ballot(ranking=fs('A','B','C'),weight=F(1,2))), candidates=('A','B','C')))
print({k:v for k,v in bg.node_weights.items() if v}, bg.num_voters)
